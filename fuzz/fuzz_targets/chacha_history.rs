#![no_main]
//! C02 / C11: seek/apply/current_pos histories on the seven cipher types.
#[path = "common.rs"]
mod common;
use arbitrary::Unstructured;
use libfuzzer_sys::fuzz_target;
use vh::gen::W128;
use vh::props::chacha_stream::*;
use vh::refmodels::chacha::{Layout, VARIANTS};

fn target(u: &mut Unstructured, ietf: bool) -> Target {
    match u.int_in_range(0u8..=7).unwrap_or(0) {
        0 | 1 => Target::Rel(u.int_in_range(-300i32..=300).unwrap_or(0)),
        2 | 3 => Target::Block(u.int_in_range(-3i8..=3).unwrap_or(0), u.int_in_range(-1i8..=63).unwrap_or(0)),
        4 => Target::FromEnd(u.int_in_range(-700i32..=700).unwrap_or(0)),
        5 => {
            if ietf { Target::FromEnd(u.int_in_range(-70i32..=70).unwrap_or(0)) } else { Target::Carry(u.int_in_range(0u8..=7).unwrap_or(0), u.int_in_range(-200i32..=1200).unwrap_or(0)) }
        }
        6 => Target::Abs(W128(u.arbitrary::<u64>().unwrap_or(0) as u128)),
        _ => Target::Abs(W128(u.arbitrary::<u128>().unwrap_or(0))),
    }
}

fn lenspec(u: &mut Unstructured) -> LenSpec {
    match u.int_in_range(0u8..=30).unwrap_or(0) % 7 {
        6 => LenSpec::Big(u.int_in_range(0u16..=4096).unwrap_or(0)),
        0 | 1 | 2 => LenSpec::Fixed(u.int_in_range(0u16..=1100).unwrap_or(0)),
        3 => LenSpec::ToBlockEnd(u.int_in_range(-2i8..=2).unwrap_or(0)),
        _ => LenSpec::ToStreamEnd(u.int_in_range(-2i8..=2).unwrap_or(0)),
    }
}

fuzz_target!(|data: &[u8]| {
    common::init();
    let mut u = Unstructured::new(data);
    let variant = u.int_in_range(0usize..=6).unwrap_or(0);
    let v = VARIANTS[variant];
    let key = common::bytes(&mut u, 32);
    let nonce = common::bytes(&mut u, v.nonce_len());
    let data_seed = u.arbitrary::<u64>().unwrap_or(0);
    let nops = u.int_in_range(0usize..=24).unwrap_or(0);
    let mut ops = Vec::new();
    for _ in 0..nops {
        if u.is_empty() {
            break;
        }
        let op = match u.int_in_range(0u8..=17).unwrap_or(0) {
            0..=5 => Op::Seek(SEEK_TYS[u.int_in_range(0usize..=6).unwrap_or(3)], target(&mut u, v.layout == Layout::Ietf)),
            6 => Op::SeekNeg(u.int_in_range(i32::MIN..=-1).unwrap_or(-1)),
            7..=14 => Op::Apply(lenspec(&mut u)),
            15 => Op::ApplyTwice(u.int_in_range(0u16..=400).unwrap_or(0)),
            _ => Op::Pos(SEEK_TYS[u.int_in_range(0usize..=6).unwrap_or(3)]),
        };
        ops.push(op);
    }
    let h = History { variant, key, nonce, data_seed, ops };
    let mut info = common::info();
    // VERIF_FUZZ_PROP=C11 runs the same target for the exhaustion property (signatures and replay
    // sub-check names follow the property)
    let c11 = std::env::var("VERIF_FUZZ_PROP").map(|p| p == "C11").unwrap_or(false);
    let (prop, sub) = if c11 { ("C11", "exhaustion") } else { ("C02", "history") };
    let r = history_check(prop, &h, &mut info);
    common::finish("chacha_history", prop, &format!("{}/{}", sub, v.name), &h, r);
});
