//! Shared by all fuzz targets: bytes are decoded with `arbitrary::Unstructured` (total decoders, no
//! rejection loops) into the case types of the harness and handed to the same checkers, so the
//! oracle runs inside the target. A violation writes the case as a replay file and aborts.
#![allow(dead_code)]

use arbitrary::Unstructured;
use std::sync::Once;
use vh::engine::{fnv1a, CaseInfo, Fail};
use vh::gen::HexBytes;

static INIT: Once = Once::new();

pub fn init() {
    INIT.call_once(|| {
        // libfuzzer-sys installs a hook that aborts on every panic; the checkers catch and classify
        // panics of the code under test themselves
        let _ = std::panic::take_hook();
        std::panic::set_hook(Box::new(|_| {}));
        if let Err(e) = vh::refmodels::selftest(false) {
            eprintln!("SELFTEST FAILED: {}", e);
            std::process::exit(2);
        }
    });
}

pub fn known() -> Vec<String> {
    std::env::var("VERIF_KNOWN").map(|s| s.split(',').filter(|x| !x.is_empty()).map(|x| x.to_string()).collect()).unwrap_or_default()
}

/// Structured byte strings: uniform or one of the patterns the PBT generators use.
pub fn bytes(u: &mut Unstructured, n: usize) -> HexBytes {
    let sel = u.int_in_range(0u8..=9).unwrap_or(0);
    let v = match sel {
        0 => vec![0u8; n],
        1 => vec![0xffu8; n],
        2 => {
            let bit = u.int_in_range(0..=(n * 8 - 1)).unwrap_or(0);
            let mut v = vec![0u8; n];
            v[bit / 8] = 1 << (bit % 8);
            v
        }
        3 => (0..n).map(|_| if u.arbitrary::<bool>().unwrap_or(false) { 0x80 } else { 0x7f }).collect(),
        _ => {
            let mut v = vec![0u8; n];
            let _ = u.fill_buffer(&mut v);
            v
        }
    };
    HexBytes(v)
}

pub fn finish<C: serde::Serialize>(target: &str, prop: &str, sub: &str, case: &C, r: Result<(), Fail>) {
    if let Err(f) = r {
        if known().iter().any(|k| *k == f.sig) {
            return;
        }
        let case_v = serde_json::to_value(case).unwrap_or(serde_json::Value::Null);
        let replay = serde_json::json!({"property": prop, "sub": sub, "config": "std-fast", "level": "host",
            "sig": f.sig, "detail": f.detail, "found_by": format!("libFuzzer target {}", target), "case": case_v});
        let dir = std::env::var("VERIF_FUZZ_OUT").unwrap_or_else(|_| "/verif/replays".to_string());
        let _ = std::fs::create_dir_all(&dir);
        let name = format!("{}/{}-fuzz-{:016x}.json", dir, prop, fnv1a(f.sig.as_bytes()));
        let _ = std::fs::write(&name, serde_json::to_vec_pretty(&replay).unwrap());
        eprintln!("FUZZ-VIOLATION property={} sig={} replay={}\n  {}", prop, f.sig, name, f.detail);
        std::process::abort();
    }
}

pub fn info() -> CaseInfo {
    CaseInfo::default()
}
