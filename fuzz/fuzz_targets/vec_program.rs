#![no_main]
//! C12 (chained): straight-line programs over 512-bit registers on every back end vs the scalar model.
#[path = "common.rs"]
mod common;
use arbitrary::Unstructured;
use libfuzzer_sys::fuzz_target;
use vh::props::vecprog::*;

fuzz_target!(|data: &[u8]| {
    common::init();
    let mut u = Unstructured::new(data);
    let regs = (0..4).map(|_| common::bytes(&mut u, 64)).collect();
    let nops = u.int_in_range(1usize..=32).unwrap_or(1);
    let mut ops = Vec::new();
    for _ in 0..nops {
        if u.is_empty() {
            break;
        }
        let b: [u8; 5] = u.arbitrary().unwrap_or([0; 5]);
        ops.push(normalise(match u.int_in_range(0u8..=16).unwrap_or(0) {
            0..=4 => VOp::Bin { kind: b[0], ty: b[1], dst: b[2], a: b[3], b: b[4] },
            5..=12 => VOp::Un { kind: b[0], ty: b[1], dst: b[2], a: b[3] },
            13 | 14 => VOp::Lane { ty: b[0], dst: b[1], a: b[2], from: b[3], to: b[4] },
            15 => VOp::Transpose,
            _ => VOp::Relane { ty: b[0], dst: b[1], a: b[2], rot: b[3] },
        }));
    }
    let p = VProg { regs, ops };
    let known = common::known();
    let mut info = common::info();
    let r = vprog_check("C12", &known, &p, &mut info);
    common::finish("vec_program", "C12", "program", &p, r);
});
