#![no_main]
//! C16 under AddressSanitizer: every byte-slice API on exact-size heap slices (red zones on both
//! sides catch small over- and under-reads inside mapped memory), result compared with the result
//! on an ordinary over-sized buffer.
#[path = "common.rs"]
mod common;
use arbitrary::Unstructured;
use libfuzzer_sys::fuzz_target;
use vh::engine::{guard, Fail};
use vh::props::align::*;

/// exact-size heap allocations, one per slot
struct HeapMem {
    bufs: Vec<Vec<u8>>,
}
impl Mem for HeapMem {
    fn slot(&mut self, id: usize, len: usize) -> &mut [u8] {
        // `shift` bytes of slack at the front make the start address odd for half of the cases
        self.bufs[id] = vec![0u8; len];
        &mut self.bufs[id][..]
    }
}

fuzz_target!(|data: &[u8]| {
    common::init();
    let apis = all_apis();
    let mut u = Unstructured::new(data);
    let api = apis[u.int_in_range(0usize..=apis.len() - 1).unwrap_or(0)].clone();
    let len = if api.variable_length() { u.int_in_range(1usize..=2000).unwrap_or(1) } else { 64 };
    let seed = u.arbitrary::<u64>().unwrap_or(0);
    let case = AlignCase { api, placement: Placement::Interior(0), len, seed };
    let mut plain = PlainMem::new();
    let want = guard(|| exec(&case, &mut plain));
    let mut heap = HeapMem { bufs: (0..4).map(|_| Vec::new()).collect() };
    let got = guard(|| exec(&case, &mut heap));
    let r = match (want, got) {
        (Ok(w), Ok(g)) => if w == g { Ok(()) } else { Err(Fail::new(format!("C16:{:?}:DIFFERS", case.api), "exact-size heap slice gives a different result".to_string())) },
        (_, Err(p)) | (Err(p), _) => Err(Fail::new(format!("C16:{:?}:PANIC", case.api), p)),
    };
    common::finish("bytes_api", "C16", "random-placements", &case, r);
});
