#![no_main]
//! C08: update/chain/clone/reset/finalize histories over sets of hasher instances.
#[path = "common.rs"]
mod common;
use arbitrary::Unstructured;
use libfuzzer_sys::fuzz_target;
use vh::props::hashes::*;

fn piece(u: &mut Unstructured) -> Piece {
    match u.int_in_range(0u8..=11).unwrap_or(0) {
        11 => Piece::Big(u.int_in_range(0u16..=2048).unwrap_or(0)),
        0..=3 => Piece::Fixed(match u.int_in_range(0u8..=3).unwrap_or(0) { 0 => 0, 1 => 1, _ => u.int_in_range(0u16..=700).unwrap_or(0) }),
        4..=7 => Piece::ToBoundary(u.int_in_range(-2i8..=2).unwrap_or(0)),
        _ => Piece::Blocks(u.int_in_range(1u8..=4).unwrap_or(1), u.int_in_range(-2i8..=2).unwrap_or(0)),
    }
}

fuzz_target!(|data: &[u8]| {
    common::init();
    // the nibble/matrix reference models are slow under ASan: compare with them up to 192 bytes only
    REF_LIMIT.store(192, std::sync::atomic::Ordering::Relaxed);
    let specs = c08_hashes();
    let mut u = Unstructured::new(data);
    let h = u.int_in_range(0usize..=specs.len() - 1).unwrap_or(0);
    let seed = u.arbitrary::<u64>().unwrap_or(0);
    let pat = u.int_in_range(0u8..=5).unwrap_or(0);
    let nops = u.int_in_range(1usize..=20).unwrap_or(1);
    let mut ops = Vec::new();
    for _ in 0..nops {
        if u.is_empty() {
            break;
        }
        let i = u.arbitrary::<u16>().unwrap_or(0);
        ops.push(match u.int_in_range(0u8..=23).unwrap_or(0) {
            0..=9 => HOp::Update(i, piece(&mut u)),
            10 => HOp::Chain(i, piece(&mut u)),
            11..=13 => HOp::Clone(i),
            14 | 15 => HOp::Reset(i),
            16 | 17 => HOp::FinalizeReset(i),
            18 | 19 => HOp::FinalizeFixedReset(i),
            20..=22 => HOp::Finalize(i),
            _ => HOp::New,
        });
    }
    let case = HHistory { hash: specs[h].name.clone(), seed, pat, ops };
    let mut info = common::info();
    let r = hhistory_check("C08", &specs, &case, &mut info);
    common::finish("hash_history", "C08", &format!("history/{}", case.hash), &case, r);
});
