#![no_main]
//! C01 (keystream at a position) and C14 (block API) from fuzzer-chosen keys, nonces, positions,
//! counters and round counts.
#[path = "common.rs"]
mod common;
use arbitrary::Unstructured;
use libfuzzer_sys::fuzz_target;
use vh::gen::W128;
use vh::props::chacha_guts::*;
use vh::props::chacha_stream::*;
use vh::refmodels::chacha::VARIANTS;

fuzz_target!(|data: &[u8]| {
    common::init();
    let mut u = Unstructured::new(data);
    if u.arbitrary::<bool>().unwrap_or(false) {
        let variant = u.int_in_range(0usize..=6).unwrap_or(0);
        let v = VARIANTS[variant];
        let key = common::bytes(&mut u, 32);
        let nonce = common::bytes(&mut u, v.nonce_len());
        let limit = v.stream_len().min(1u128 << 64);
        let pos = match u.int_in_range(0u8..=4).unwrap_or(0) {
            0 => u.int_in_range(0u64..=4096).unwrap_or(0) as u128,
            1 => (u.int_in_range(1u128..=7).unwrap_or(1) << 38).wrapping_add(u.int_in_range(0u128..=1200).unwrap_or(0)).wrapping_sub(600),
            2 => limit - 1 - u.int_in_range(0u128..=4096).unwrap_or(0),
            _ => u.arbitrary::<u64>().unwrap_or(0) as u128,
        }
        .min(limit - 1);
        let len = (u.int_in_range(0u16..=1100).unwrap_or(0) as u128).min(limit - pos) as u16;
        let pre = (u.int_in_range(0u16..=200).unwrap_or(0) as u128).min(pos) as u16;
        let case = C01Case { variant, key, nonce, pre, pos: W128(pos), len, data_seed: u.arbitrary().unwrap_or(0), off: u.int_in_range(0u8..=63).unwrap_or(0) };
        let mut info = common::info();
        let r = c01_check(&case, &mut info);
        common::finish("blockfn", "C01", &format!("keystream/{}", v.name), &case, r);
    } else {
        let key = common::bytes(&mut u, 32);
        let nl = if u.arbitrary::<bool>().unwrap_or(false) { 8 } else { 12 };
        let nonce = common::bytes(&mut u, nl);
        let counter = match u.int_in_range(0u8..=4).unwrap_or(0) {
            0 => None,
            1 => Some((((u.arbitrary::<u32>().unwrap_or(0) as u64) << 32) | 0xffff_ffff).wrapping_sub(u.int_in_range(0u64..=8).unwrap_or(0)).wrapping_add(4)),
            2 => Some(u64::MAX - u.int_in_range(0u64..=8).unwrap_or(0)),
            _ => Some(u.arbitrary::<u64>().unwrap_or(0)),
        };
        let stream = if u.arbitrary::<bool>().unwrap_or(false) { Some(u.arbitrary::<u64>().unwrap_or(0)) } else { None };
        let case = C14Case { key, nonce, counter, stream, drounds: u.int_in_range(0u32..=10).unwrap_or(10), reps: u.int_in_range(1u8..=3).unwrap_or(1) };
        let mut info = common::info();
        let r = c14_check(&case, &mut info);
        common::finish("blockfn", "C14", "refill4-vs-refill", &case, r);
    }
});
