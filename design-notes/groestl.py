def xtime(a): 
    a<<=1
    return (a^0x11b)&0xff if a&0x100 else a
def gmul(a,b):
    r=0
    while b:
        if b&1: r^=a
        a=xtime(a); b>>=1
    return r
def make_sbox():
    # AES S-box: inverse in GF(2^8) then affine
    inv=[0]*256
    for a in range(1,256):
        for b in range(1,256):
            if gmul(a,b)==1: inv[a]=b; break
    sb=[]
    for a in range(256):
        x=inv[a]; y=x
        for k in range(1,5):
            y^=((x<<k)|(x>>(8-k)))&0xff
        sb.append(y^0x63)
    return sb
SB=make_sbox()
assert SB[0]==0x63 and SB[1]==0x7c and SB[0x53]==0xed
B=[2,2,3,4,5,3,5,7]
def perm(state, cols, rounds, which):
    # state[row][col]
    shP = [0,1,2,3,4,5,6,7] if cols==8 else [0,1,2,3,4,5,6,11]
    shQ = [1,3,5,7,0,2,4,6] if cols==8 else [1,3,5,11,0,2,4,6]
    sh = shP if which=='P' else shQ
    for r in range(rounds):
        # AddRoundConstant
        if which=='P':
            for j in range(cols): state[0][j]^=(j<<4)^r
        else:
            for i in range(8):
                for j in range(cols): state[i][j]^=0xff
            for j in range(cols): state[7][j]^=(j<<4)^r
        # SubBytes
        state=[[SB[x] for x in row] for row in state]
        # ShiftBytes
        state=[[state[i][(j+sh[i])%cols] for j in range(cols)] for i in range(8)]
        # MixBytes
        new=[[0]*cols for _ in range(8)]
        for j in range(cols):
            for i in range(8):
                v=0
                for k in range(8):
                    v^=gmul(B[(k-i)%8], state[k][j])
                new[i][j]=v
        state=new
    return state
def to_state(bs, cols): return [[bs[8*j+i] for j in range(cols)] for i in range(8)]
def from_state(st, cols): return bytes(st[i][j] for j in range(cols) for i in range(8))
def groestl(msg, n):
    l = 512 if n<=256 else 1024
    cols=l//64; rounds=10 if l==512 else 14; bl=l//8
    iv=bytearray(bl); iv[-2]=n>>8; iv[-1]=n&255
    h=bytes(iv)
    # padding
    N=len(msg)
    w=(-(N*8)-65)%l
    padded = msg+b'\x80'+bytes((w+1)//8 - 0)  # placeholder, fix below
    # simpler: append 0x80, zeros until len%bl==bl-8, then block count
    padded=msg+b'\x80'
    while len(padded)%bl != bl-8: padded+=b'\0'
    nblocks=(len(padded)+8)//bl
    padded+=nblocks.to_bytes(8,'big')
    for off in range(0,len(padded),bl):
        m=padded[off:off+bl]
        hm=bytes(a^b for a,b in zip(h,m))
        p=from_state(perm(to_state(hm,cols),cols,rounds,'P'),cols)
        q=from_state(perm(to_state(m,cols),cols,rounds,'Q'),cols)
        h=bytes(a^b^c for a,b,c in zip(p,q,h))
    p=from_state(perm(to_state(h,cols),cols,rounds,'P'),cols)
    out=bytes(a^b for a,b in zip(p,h))
    return out[-n//8:]
if __name__=="__main__":
    print(groestl(b"",256).hex())
    print(groestl(b"abc",256).hex())
    print(groestl(b"abc",512).hex())
    print(groestl(b"abc",224).hex())
    print(groestl(bytes(range(200)),384).hex())
