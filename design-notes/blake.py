SIGMA=[[0,1,2,3,4,5,6,7,8,9,10,11,12,13,14,15],[14,10,4,8,9,15,13,6,1,12,0,2,11,7,5,3],[11,8,12,0,5,2,15,13,10,14,3,6,7,1,9,4],[7,9,3,1,13,12,11,14,2,6,5,10,4,0,15,8],[9,0,5,7,2,4,10,15,14,1,11,12,6,8,3,13],[2,12,6,10,0,11,8,3,4,13,7,5,15,14,1,9],[12,5,1,15,14,13,4,10,0,7,6,3,9,2,8,11],[13,11,7,14,12,1,3,9,5,0,15,4,8,6,2,10],[6,15,14,9,11,3,0,8,12,2,13,7,1,4,10,5],[10,2,8,4,7,6,1,5,15,11,9,14,3,12,13,0]]
C32=[0x243F6A88,0x85A308D3,0x13198A2E,0x03707344,0xA4093822,0x299F31D0,0x082EFA98,0xEC4E6C89,0x452821E6,0x38D01377,0xBE5466CF,0x34E90C6C,0xC0AC29B7,0xC97C50DD,0x3F84D5B5,0xB5470917]
C64=[0x243F6A8885A308D3,0x13198A2E03707344,0xA4093822299F31D0,0x082EFA98EC4E6C89,0x452821E638D01377,0xBE5466CF34E90C6C,0xC0AC29B7C97C50DD,0x3F84D5B5B5470917,0x9216D5D98979FB1B,0xD1310BA698DFB5AC,0x2FFD72DBD01ADFB7,0xB8E1AFED6A267E96,0xBA7C9045F12C7F99,0x24A19947B3916CF7,0x0801F2E2858EFC16,0x636920D871574E69]
IV256=[0x6A09E667,0xBB67AE85,0x3C6EF372,0xA54FF53A,0x510E527F,0x9B05688C,0x1F83D9AB,0x5BE0CD19]
IV224=[0xC1059ED8,0x367CD507,0x3070DD17,0xF70E5939,0xFFC00B31,0x68581511,0x64F98FA7,0xBEFA4FA4]
IV512=[0x6A09E667F3BCC908,0xBB67AE8584CAA73B,0x3C6EF372FE94F82B,0xA54FF53A5F1D36F1,0x510E527FADE682D1,0x9B05688C2B3E6C1F,0x1F83D9ABFB41BD6B,0x5BE0CD19137E2179]
IV384=[0xCBBB9D5DC1059ED8,0x629A292A367CD507,0x9159015A3070DD17,0x152FECD8F70E5939,0x67332667FFC00B31,0x8EB44A8768581511,0xDB0C2E0D64F98FA7,0x47B5481DBEFA4FA4]
def blake(msg, bits):
    big = bits>256
    W=64 if big else 32; mask=(1<<W)-1; wb=W//8; bl=16*wb
    rot=(32,25,16,11) if big else (16,12,8,7)
    C=C64 if big else C32; rounds=16 if big else 14
    h=list({224:IV224,256:IV256,384:IV384,512:IV512}[bits])
    ror=lambda x,n:((x>>n)|(x<<(W-n)))&mask
    def compress(h, block, t):
        m=[int.from_bytes(block[i*wb:(i+1)*wb],'big') for i in range(16)]
        v=h[:]+[C[0],C[1],C[2],C[3], (t&mask)^C[4], (t&mask)^C[5], (t>>W)^C[6], (t>>W)^C[7]]
        def G(a,b,c,d,r,i):
            s=SIGMA[r%10]
            v[a]=(v[a]+v[b]+(m[s[2*i]]^C[s[2*i+1]]))&mask
            v[d]=ror(v[d]^v[a],rot[0]); v[c]=(v[c]+v[d])&mask; v[b]=ror(v[b]^v[c],rot[1])
            v[a]=(v[a]+v[b]+(m[s[2*i+1]]^C[s[2*i]]))&mask
            v[d]=ror(v[d]^v[a],rot[2]); v[c]=(v[c]+v[d])&mask; v[b]=ror(v[b]^v[c],rot[3])
        for r in range(rounds):
            G(0,4,8,12,r,0);G(1,5,9,13,r,1);G(2,6,10,14,r,2);G(3,7,11,15,r,3)
            G(0,5,10,15,r,4);G(1,6,11,12,r,5);G(2,7,8,13,r,6);G(3,4,9,14,r,7)
        return [h[i]^v[i]^v[i+8] for i in range(8)]
    L=len(msg)*8
    # padding: 1 bit, zeros, 1 bit (only for 256/512), then length (2 words)
    lenbytes=2*wb
    p=bytearray(msg)+b'\x80'
    while len(p)%bl != bl-lenbytes: p+=b'\0'
    if bits in (256,512): p[-1]|=0x01
    p+=L.to_bytes(lenbytes,'big')
    nb=len(p)//bl
    done=0
    for i in range(nb):
        # counter: number of message bits hashed so far incl. this block, 0 if block has no message bits
        mbits=min(L, (i+1)*bl*8)
        t = mbits if mbits> i*bl*8 else 0
        h=compress(h,p[i*bl:(i+1)*bl],t)
    out=b''.join(x.to_bytes(wb,'big') for x in h)
    return out[:bits//8]
if __name__=="__main__":
    print(blake(b"\0",256).hex())   # known: 0ce8d4ef4dd7cd8d62dfded9d4edb0a774ae6a41929a74da23109e8f11139c87
    print(blake(b"\0",512).hex())   # known: 97961587f6d970faba6d2478045de6d1fabd09b61ae50932054d52bc29d31be4ff9102b9f69e2bbdb83be13d4b9c06091e5fa0b48bd081b634058be0ec49beb3
    print(blake(bytes(72),256).hex())
    print(blake(bytes(144),512).hex())
    print(blake(bytes(111),384).hex(), blake(bytes(112),384).hex())
    print(blake(bytes(55),224).hex(), blake(bytes(56),224).hex(), blake(bytes(64),224).hex(), blake(b"",224).hex())
