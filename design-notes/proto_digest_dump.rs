// Probe: dump digests of deterministic messages of every length 0..=300 for all hashes.
use digest::{Digest, generic_array::typenum::*};
fn msg(len: usize, pat: u8) -> Vec<u8> { (0..len).map(|i| match pat { 0 => (i as u8).wrapping_mul(37).wrapping_add(11), 1 => 0xff, 2 => 0x80, _ => 0 }).collect() }
fn hx(x:&[u8])->String{ x.iter().map(|b| format!("{:02x}",b)).collect() }
macro_rules! d { ($name:expr, $t:ty) => { for pat in 0..4u8 { for len in 0..=300usize { if pat>0 && len%7!=0 && ![55,56,63,64,65,111,112,119,120,127,128,129].contains(&len) { continue; } println!("{} {} {} {}", $name, pat, len, hx(&<$t>::digest(&msg(len,pat)))); } } } }
fn main(){
  d!("blake224", blake_hash::Blake224); d!("blake256", blake_hash::Blake256); d!("blake384", blake_hash::Blake384); d!("blake512", blake_hash::Blake512);
  d!("groestl224", groestl_aesni::Groestl224); d!("groestl256", groestl_aesni::Groestl256); d!("groestl384", groestl_aesni::Groestl384); d!("groestl512", groestl_aesni::Groestl512);
  d!("jh224", jh_x86_64::Jh224); d!("jh256", jh_x86_64::Jh256); d!("jh384", jh_x86_64::Jh384); d!("jh512", jh_x86_64::Jh512);
  d!("skein256-32", skein_hash::Skein256<U32>); d!("skein512-64", skein_hash::Skein512<U64>); d!("skein1024-128", skein_hash::Skein1024<U128>);
  d!("skein256-1", skein_hash::Skein256<U1>); d!("skein256-33", skein_hash::Skein256<U33>); d!("skein256-200", skein_hash::Skein256<U200>);
  d!("skein512-7", skein_hash::Skein512<U7>); d!("skein512-129", skein_hash::Skein512<U129>); d!("skein1024-300", skein_hash::Skein1024<U300>); d!("skein1024-20", skein_hash::Skein1024<U20>);
}
