// Probe: byte-slice APIs on buffers abutting PROT_NONE pages at every alignment (C16).
use digest::{Digest, generic_array::typenum::*, generic_array::GenericArray};
use cipher::{NewCipher, StreamCipher, BlockEncrypt, BlockDecrypt, NewBlockCipher};
struct Arena { base: *mut u8, pages: usize }
const PG: usize = 4096;
impl Arena { fn new(pages: usize) -> Self { unsafe { let p = libc::mmap(std::ptr::null_mut(), (pages+2)*PG, libc::PROT_READ|libc::PROT_WRITE, libc::MAP_PRIVATE|libc::MAP_ANONYMOUS, -1, 0) as *mut u8; assert!(p as isize != -1);
      assert_eq!(libc::mprotect(p as *mut _, PG, libc::PROT_NONE),0); assert_eq!(libc::mprotect(p.add((pages+1)*PG) as *mut _, PG, libc::PROT_NONE),0); Arena{base:p,pages} } }
  // slice of len ending exactly at the trailing guard
  fn at_end(&self, len: usize) -> &'static mut [u8] { unsafe { std::slice::from_raw_parts_mut(self.base.add((self.pages+1)*PG - len), len) } }
  fn at_start(&self, len: usize) -> &'static mut [u8] { unsafe { std::slice::from_raw_parts_mut(self.base.add(PG), len) } } }
struct Rng(u64);
impl Rng { fn next(&mut self) -> u64 { self.0 ^= self.0 << 13; self.0 ^= self.0 >> 7; self.0 ^= self.0 << 17; self.0 } }
fn hash<D: Digest>(name:&str, ar:&Arena, r:&mut Rng) -> usize { let mut bad=0;
  for len in (0..300).chain([511,512,513,1000,4095]) { let msg: Vec<u8> = (0..len).map(|_| r.next() as u8).collect(); let want=D::digest(&msg);
    for place in 0..2 { let s = if place==0 { ar.at_end(len) } else { ar.at_start(len) }; s.copy_from_slice(&msg); if D::digest(s)!=want { bad+=1; println!("{name} len {len} place {place} mismatch"); }
      // chunked with odd split, too
      let mut h=D::new(); let k=len/3; h.update(&s[..k]); h.update(&s[k..]); if h.finalize()!=want { bad+=1; } } }
  bad }
fn main(){
  let ar=Arena::new(4); let mut r=Rng(3); let mut bad=0;
  bad+=hash::<blake_hash::Blake256>("blake256",&ar,&mut r); bad+=hash::<blake_hash::Blake512>("blake512",&ar,&mut r);
  bad+=hash::<groestl_aesni::Groestl256>("groestl256",&ar,&mut r); bad+=hash::<groestl_aesni::Groestl512>("groestl512",&ar,&mut r);
  bad+=hash::<jh_x86_64::Jh256>("jh256",&ar,&mut r); bad+=hash::<skein_hash::Skein512<U64>>("skein512",&ar,&mut r); bad+=hash::<skein_hash::Skein1024<U32>>("skein1024",&ar,&mut r);
  // alignment sweep in the middle too: offsets 0..63 before the end guard handled by len variation (end fixed => start alignment varies with len)
  for len in (0..600).chain([1023,1024,1025,2048]) { let key=[7u8;32];
    let mut want=vec![0u8;len]; c2_chacha::ChaCha20::new(&key.into(), &[1u8;8].into()).apply_keystream(&mut want);
    for place in 0..2 { let s = if place==0 { ar.at_end(len) } else { ar.at_start(len) }; s.fill(0); c2_chacha::ChaCha20::new(&key.into(), &[1u8;8].into()).apply_keystream(s); if s!=&want[..] { bad+=1; println!("chacha len {len}"); } } }
  for place in 0..2 { for off in 0..64usize { // threefish blocks at odd alignment: use at_end(len+off)[..len] for start alignment
      let buf = if place==0 { let s=ar.at_end(128); s } else { let s=ar.at_start(128+off); &mut s[off..] };
      let key=GenericArray::<u8,U128>::default(); let f=threefish_cipher::Threefish1024::new(&key);
      buf.fill(0x5a); let b=GenericArray::<u8,U128>::from_mut_slice(buf); f.encrypt_block(b); f.decrypt_block(b); if b.iter().any(|x| *x!=0x5a) { bad+=1; } } }
  // guts refill into guarded buffers
  { let mut c=c2_chacha::guts::ChaCha::new(ar.at_end(32).try_into().map(|k: &mut [u8;32]| &*k).unwrap(), ar.at_end(8)); let o: &mut [u8;64]=ar.at_end(64).try_into().unwrap(); c.refill(10,o); let o: &mut [u8;256]=ar.at_end(256).try_into().unwrap(); c.refill4(10,o); }
  println!("survived; mismatches {bad}");
}
