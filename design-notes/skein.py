M64=(1<<64)-1
R={4:[[14,16],[52,57],[23,40],[5,37],[25,33],[46,12],[58,22],[32,32]],
   8:[[46,36,19,37],[33,27,14,42],[17,49,36,39],[44,9,54,56],[39,30,34,24],[13,50,10,17],[25,29,39,43],[8,35,56,22]],
   16:[[24,13,8,47,8,17,22,37],[38,19,10,55,49,18,23,52],[33,4,51,13,34,41,59,17],[5,20,48,41,47,28,16,25],[41,9,37,31,12,47,44,30],[16,34,56,51,4,53,42,41],[31,44,47,46,19,42,44,25],[9,48,35,52,23,31,37,20]]}
PI={4:[0,3,2,1],8:[2,1,4,7,6,5,0,3],16:[0,9,2,13,6,11,4,15,10,7,12,3,14,5,8,1]}
C240=0x1BD11BDAA9FC1A22
def rotl(x,n): return ((x<<n)|(x>>(64-n)))&M64
def subkeys(key,t0,t1,nw,nr):
    k=list(key); kx=C240
    for w in k: kx^=w
    k.append(kx); t=[t0,t1,t0^t1]
    sks=[]
    for s in range(nr//4+1):
        sk=[k[(s+i)%(nw+1)] for i in range(nw)]
        sk[nw-3]=(sk[nw-3]+t[s%3])&M64; sk[nw-2]=(sk[nw-2]+t[(s+1)%3])&M64; sk[nw-1]=(sk[nw-1]+s)&M64
        sks.append(sk)
    return sks
def tf_enc(key,t0,t1,pt):
    nw=len(pt); nr=80 if nw==16 else 72
    sks=subkeys(key,t0,t1,nw,nr); v=list(pt)
    for d in range(nr):
        if d%4==0: v=[(v[i]+sks[d//4][i])&M64 for i in range(nw)]
        f=[0]*nw
        for j in range(nw//2):
            x0,x1=v[2*j],v[2*j+1]
            y0=(x0+x1)&M64; y1=rotl(x1,R[nw][d%8][j])^y0
            f[2*j],f[2*j+1]=y0,y1
        v=[f[PI[nw][i]] for i in range(nw)]
    return [(v[i]+sks[nr//4][i])&M64 for i in range(nw)]
def tf_dec(key,t0,t1,ct):
    nw=len(ct); nr=80 if nw==16 else 72
    sks=subkeys(key,t0,t1,nw,nr); v=[(ct[i]-sks[nr//4][i])&M64 for i in range(nw)]
    for d in reversed(range(nr)):
        f=[0]*nw
        for i in range(nw): f[PI[nw][i]]=v[i]
        e=[0]*nw
        for j in range(nw//2):
            y0,y1=f[2*j],f[2*j+1]
            x1=rotl(y1^y0,64-R[nw][d%8][j])&M64 if R[nw][d%8][j]%64 else (y1^y0)
            x0=(y0-x1)&M64
            e[2*j],e[2*j+1]=x0,x1
        v=e
        if d%4==0: v=[(v[i]-sks[d//4][i])&M64 for i in range(nw)]
    return v
def words(b): return [int.from_bytes(b[i:i+8],'little') for i in range(0,len(b),8)]
def unwords(w): return b''.join(x.to_bytes(8,'little') for x in w)
T_CFG,T_MSG,T_OUT=4,48,63
def ubi(G,msg,typ,nb):
    # msg: bytes, at least one block processed
    blocks=[msg[i:i+nb] for i in range(0,len(msg),nb)] or [b'']
    pos=0
    for idx,b in enumerate(blocks):
        pos+=len(b)
        first = idx==0; final = idx==len(blocks)-1
        t0=pos&M64; t1=((pos>>64)&0xffffffff)|(typ<<56)|(int(first)<<62)|(int(final)<<63)
        bp=b+bytes(nb-len(b))
        m=words(bp)
        e=tf_enc(G,t0,t1,m)
        G=[e[i]^m[i] for i in range(len(m))]
    return G
def skein(state_bits,out_bytes,msg):
    nb=state_bits//8
    cfg=b'SHA3'+(1).to_bytes(2,'little')+bytes(2)+(out_bytes*8).to_bytes(8,'little')+bytes(16)
    G=ubi([0]*(nb//8),cfg,T_CFG,nb)
    G=ubi(G,msg,T_MSG,nb)
    out=b''
    i=0
    while len(out)<out_bytes:
        out+=unwords(ubi(G,i.to_bytes(8,'little'),T_OUT,nb)); i+=1
    return out[:out_bytes]
if __name__=="__main__":
    print(unwords(tf_enc([0]*4,0,0,[0]*4)).hex())
    k=words(bytes(range(0x10,0x10+64))); pt=words(bytes(range(0xff,0xff-64,-1)))
    ct=tf_enc(k,0x0706050403020100,0x0f0e0d0c0b0a0908,pt); print(unwords(ct).hex()); print(tf_dec(k,0x0706050403020100,0x0f0e0d0c0b0a0908,ct)==pt)
    print(skein(512,64,b"").hex())
    print(skein(256,32,bytes([0xff])).hex())
    print(skein(1024,128,bytes(range(255,255-129,-1))).hex()[:64])
    print(skein(256,77,bytes(range(100))).hex())
