# JH reference (nibble-oriented, from the JH specification, round 3 / JH42)
S = [[9,0,4,11,13,12,3,15,1,10,2,6,7,5,8,14],
     [3,12,6,13,5,7,1,9,15,2,0,4,11,10,14,8]]
def L(a, b):
    # (C,D) = L(A,B) over GF(2^4), x^4+x+1 ; bit0 = MSB
    A=[(a>>3)&1,(a>>2)&1,(a>>1)&1,a&1]; B=[(b>>3)&1,(b>>2)&1,(b>>1)&1,b&1]
    D=[B[0]^A[1], B[1]^A[2], B[2]^A[3]^A[0], B[3]^A[0]]
    C=[A[0]^D[1], A[1]^D[2], A[2]^D[3]^D[0], A[3]^D[0]]
    f=lambda v:(v[0]<<3)|(v[1]<<2)|(v[2]<<1)|v[3]
    return f(C), f(D)
def perm(a, d):
    n=1<<d
    # pi_d
    b=list(a)
    for i in range(n//4):
        b[4*i+2], b[4*i+3] = a[4*i+3], a[4*i+2]
    # P'_d
    c=[0]*n
    for i in range(n//2):
        c[i]=b[2*i]; c[i+n//2]=b[2*i+1]
    # phi_d
    e=list(c)
    for i in range(n//4, n//2):
        e[2*i], e[2*i+1] = c[2*i+1], c[2*i]
    return e
def Rd(a, cbits, d):
    n=1<<d
    v=[S[cbits[i]][a[i]] for i in range(n)]
    w=[0]*n
    for i in range(n//2):
        w[2*i], w[2*i+1] = L(v[2*i], v[2*i+1])
    return perm(w, d)
C0 = bytes.fromhex("6a09e667f3bcc908b2fb1366ea957d3e3adec17512775099da2f590b0667322a")
def nibbles(bs):
    out=[]
    for x in bs: out += [x>>4, x&15]
    return out
def bits(bs):
    out=[]
    for x in bs: out += [(x>>(7-k))&1 for k in range(8)]
    return out
def round_constants():
    cs=[]; c=nibbles(C0)
    for r in range(42):
        cs.append(c)
        c=Rd(c,[0]*64,6)
    return cs
RC=round_constants()
def nib_to_bits(ns):
    out=[]
    for x in ns: out += [(x>>3)&1,(x>>2)&1,(x>>1)&1,x&1]
    return out
def E8(Hbytes):
    A=bits(Hbytes)  # 1024 bits
    q=[0]*256
    for i in range(128):
        q[2*i]   = (A[i]<<3)|(A[i+256]<<2)|(A[i+512]<<1)|A[i+768]
        q[2*i+1] = (A[i+128]<<3)|(A[i+128+256]<<2)|(A[i+128+512]<<1)|A[i+128+768]
    for r in range(42):
        q=Rd(q, nib_to_bits(RC[r]), 8)
    B=[0]*1024
    for i in range(128):
        B[i],B[i+256],B[i+512],B[i+768] = (q[2*i]>>3)&1,(q[2*i]>>2)&1,(q[2*i]>>1)&1,q[2*i]&1
        B[i+128],B[i+128+256],B[i+128+512],B[i+128+768] = (q[2*i+1]>>3)&1,(q[2*i+1]>>2)&1,(q[2*i+1]>>1)&1,q[2*i+1]&1
    out=bytearray(128)
    for i in range(1024):
        out[i//8] |= B[i]<<(7-(i%8))
    return bytes(out)
def F8(H, M):
    H=bytearray(H)
    for i in range(64): H[i]^=M[i]
    H=bytearray(E8(bytes(H)))
    for i in range(64): H[64+i]^=M[i]
    return bytes(H)
def jh(msg, hashbits):
    H=bytearray(128); H[0]=hashbits>>8; H[1]=hashbits&255
    H=F8(bytes(H), bytes(64))
    l=len(msg)*8
    pad = msg + b'\x80'
    if len(msg)%64==0:
        pad += bytes(64-1-16)
    else:
        pad += bytes((64-len(pad)%64)%64) + bytes(64-16)
    pad += l.to_bytes(16,'big')
    assert len(pad)%64==0
    for i in range(0,len(pad),64):
        H=F8(H,pad[i:i+64])
    return H[128-hashbits//8:], None
if __name__=="__main__":
    import sys
    print(jh(b"abc",256)[0].hex())
    print(jh(b"",256)[0].hex())
    # H0 for JH256
    H=bytearray(128); H[0]=1; H[1]=0
    print(F8(bytes(H),bytes(64)).hex()[:64])
