// Prototype sweep: ppv-lite86 ops vs scalar meaning, per backend (ORIGINAL /repo sources).
#![allow(non_camel_case_types)]
use ppv_lite86::*;
use ppv_lite86::x86_64::{SSE2, SSSE3, SSE41, AVX2};
use std::collections::BTreeSet;
use std::panic::{catch_unwind, AssertUnwindSafe};

struct Rng(u64);
impl Rng { fn next(&mut self) -> u64 { self.0 ^= self.0 << 13; self.0 ^= self.0 >> 7; self.0 ^= self.0 << 17; self.0 }
  fn bytes<const N: usize>(&mut self, i: usize) -> [u8; N] { let mut b=[0u8;N];
    match i % 6 { 0 => {}, 1 => b=[0xff;N], 2 => { b[(self.next() as usize)%N] = 1 << (self.next()%8); }, 3 => { for (k,x) in b.iter_mut().enumerate(){*x=k as u8;} }, 4 => { for x in b.iter_mut(){*x= if self.next()&1==0 {0x80} else {0x7f};} }, _ => { for x in b.iter_mut(){*x=self.next() as u8;} } } b } }

fn w32(b:&[u8])->Vec<u32>{ b.chunks(4).map(|c| u32::from_le_bytes(c.try_into().unwrap())).collect() }
fn w64(b:&[u8])->Vec<u64>{ b.chunks(8).map(|c| u64::from_le_bytes(c.try_into().unwrap())).collect() }
fn w128(b:&[u8])->Vec<u128>{ b.chunks(16).map(|c| u128::from_le_bytes(c.try_into().unwrap())).collect() }
fn b32(w:&[u32])->Vec<u8>{ w.iter().flat_map(|x| x.to_le_bytes()).collect() }
fn b64(w:&[u64])->Vec<u8>{ w.iter().flat_map(|x| x.to_le_bytes()).collect() }
fn b128(w:&[u128])->Vec<u8>{ w.iter().flat_map(|x| x.to_le_bytes()).collect() }
fn st128(b:&[u8])->vec128_storage{ let w=w32(b); [w[0],w[1],w[2],w[3]].into() }
fn by128(s:vec128_storage)->Vec<u8>{ let a:[u32;4]=s.into(); b32(&a) }
fn st256(b:&[u8])->vec256_storage{ vec256_storage::new128([st128(&b[..16]),st128(&b[16..])]) }
fn by256(s:vec256_storage)->Vec<u8>{ let p=s.split128(); [by128(p[0]),by128(p[1])].concat() }
fn st512(b:&[u8])->vec512_storage{ vec512_storage::new128([st128(&b[..16]),st128(&b[16..32]),st128(&b[32..48]),st128(&b[48..])]) }
fn by512(s:vec512_storage)->Vec<u8>{ let p=s.split128(); [by128(p[0]),by128(p[1]),by128(p[2]),by128(p[3])].concat() }

fn swapn(x:u128,n:u32)->u128{ // exchange adjacent n-bit groups
  let mut m:u128=0; let mut i=0; while i<128 { m |= (((1u128<<n)-1))<<i; i+=2*n; } ((x & m) << n) | ((x >> n) & m) }
macro_rules! chk { ($bad:expr,$name:expr,$ty:expr,$op:expr,$got:expr,$want:expr) => {{
   let g = catch_unwind(AssertUnwindSafe(|| $got)); let w=$want;
   match g { Ok(g) => if g != w { $bad.insert(format!("{} {} {} WRONG", $name,$ty,$op)); }, Err(_) => { $bad.insert(format!("{} {} {} PANIC", $name,$ty,$op)); } } }} }

#[inline(always)]
fn sweep<M: Machine>(m: M, name: &str, bad: &mut BTreeSet<String>) where M::u128x1: BSwap {
  let mut r = Rng(0x9e3779b97f4a7c15);
  for i in 0..600 {
    let a: [u8;16] = r.bytes(i); let b: [u8;16] = r.bytes(i/6);
    // ---- u32x4
    { let x: M::u32x4 = m.unpack(st128(&a)); let y: M::u32x4 = m.unpack(st128(&b)); let (xa,xb)=(w32(&a),w32(&b));
      let f=|v:M::u32x4| by128(v.into());
      chk!(bad,name,"u32x4","add", f(x+y), b32(&xa.iter().zip(&xb).map(|(p,q)|p.wrapping_add(*q)).collect::<Vec<_>>()));
      chk!(bad,name,"u32x4","xor", f(x^y), b32(&xa.iter().zip(&xb).map(|(p,q)|p^q).collect::<Vec<_>>()));
      chk!(bad,name,"u32x4","and", f(x&y), b32(&xa.iter().zip(&xb).map(|(p,q)|p&q).collect::<Vec<_>>()));
      chk!(bad,name,"u32x4","or", f(x|y), b32(&xa.iter().zip(&xb).map(|(p,q)|p|q).collect::<Vec<_>>()));
      chk!(bad,name,"u32x4","not", f(!x), b32(&xa.iter().map(|p|!p).collect::<Vec<_>>()));
      chk!(bad,name,"u32x4","andnot", f(x.andnot(y)), b32(&xa.iter().zip(&xb).map(|(p,q)|!p&q).collect::<Vec<_>>()));
      chk!(bad,name,"u32x4","bswap", f(x.bswap()), b32(&xa.iter().map(|p|p.swap_bytes()).collect::<Vec<_>>()));
      macro_rules! rot { ($f:ident,$n:expr) => { chk!(bad,name,"u32x4",stringify!($f), f(x.$f()), b32(&xa.iter().map(|p|p.rotate_right($n)).collect::<Vec<_>>())); } }
      rot!(rotate_each_word_right7,7);rot!(rotate_each_word_right8,8);rot!(rotate_each_word_right11,11);rot!(rotate_each_word_right12,12);rot!(rotate_each_word_right16,16);rot!(rotate_each_word_right20,20);rot!(rotate_each_word_right24,24);rot!(rotate_each_word_right25,25);
      chk!(bad,name,"u32x4","shuffle1230", f(x.shuffle1230()), b32(&[xa[3],xa[0],xa[1],xa[2]]));
      chk!(bad,name,"u32x4","shuffle2301", f(x.shuffle2301()), b32(&[xa[2],xa[3],xa[0],xa[1]]));
      chk!(bad,name,"u32x4","shuffle3012", f(x.shuffle3012()), b32(&[xa[1],xa[2],xa[3],xa[0]]));
      chk!(bad,name,"u32x4","lane1230", f(x.shuffle_lane_words1230()), b32(&[xa[3],xa[0],xa[1],xa[2]]));
      chk!(bad,name,"u32x4","to_lanes", x.to_lanes().to_vec(), xa.clone());
      chk!(bad,name,"u32x4","from_lanes", f(M::u32x4::from_lanes([xa[0],xa[1],xa[2],xa[3]])), a.to_vec());
      for k in 0..4u32 { chk!(bad,name,"u32x4",format!("extract{k}"), x.extract(k), xa[k as usize]);
         let mut e=xa.clone(); e[k as usize]=xb[0]; chk!(bad,name,"u32x4",format!("insert{k}"), f(x.insert(xb[0],k)), b32(&e)); }
      let mut o=[0u8;16]; chk!(bad,name,"u32x4","write_le", {x.write_le(&mut o); o.to_vec()}, a.to_vec());
      let mut o=[0u8;16]; chk!(bad,name,"u32x4","write_be", {x.write_be(&mut o); o.to_vec()}, xa.iter().flat_map(|p|p.to_be_bytes()).collect::<Vec<_>>());
      chk!(bad,name,"u32x4","read_le", f(m.read_le(&a)), a.to_vec());
      chk!(bad,name,"u32x4","read_be", f(m.read_be(&a)), b32(&a.chunks(4).map(|c|u32::from_be_bytes(c.try_into().unwrap())).collect::<Vec<_>>()));
    }
    // ---- u64x2
    { let x: M::u64x2 = m.unpack(st128(&a)); let y: M::u64x2 = m.unpack(st128(&b)); let (xa,xb)=(w64(&a),w64(&b));
      let f=|v:M::u64x2| by128(v.into());
      chk!(bad,name,"u64x2","add", f(x+y), b64(&xa.iter().zip(&xb).map(|(p,q)|p.wrapping_add(*q)).collect::<Vec<_>>()));
      chk!(bad,name,"u64x2","not", f(!x), b64(&xa.iter().map(|p|!p).collect::<Vec<_>>()));
      chk!(bad,name,"u64x2","andnot", f(x.andnot(y)), b64(&xa.iter().zip(&xb).map(|(p,q)|!p&q).collect::<Vec<_>>()));
      chk!(bad,name,"u64x2","bswap", f(x.bswap()), b64(&xa.iter().map(|p|p.swap_bytes()).collect::<Vec<_>>()));
      macro_rules! rot { ($f:ident,$n:expr) => { chk!(bad,name,"u64x2",stringify!($f), f(x.$f()), b64(&xa.iter().map(|p|p.rotate_right($n)).collect::<Vec<_>>())); } }
      rot!(rotate_each_word_right7,7);rot!(rotate_each_word_right8,8);rot!(rotate_each_word_right11,11);rot!(rotate_each_word_right12,12);rot!(rotate_each_word_right16,16);rot!(rotate_each_word_right20,20);rot!(rotate_each_word_right24,24);rot!(rotate_each_word_right25,25);rot!(rotate_each_word_right32,32);
      chk!(bad,name,"u64x2","to_lanes", x.to_lanes().to_vec(), xa.clone());
      chk!(bad,name,"u64x2","from_lanes", f(M::u64x2::from_lanes([xa[0],xa[1]])), a.to_vec());
      for k in 0..2u32 { chk!(bad,name,"u64x2",format!("extract{k}"), x.extract(k), xa[k as usize]);
         let mut e=xa.clone(); e[k as usize]=xb[0]; chk!(bad,name,"u64x2",format!("insert{k}"), f(x.insert(xb[0],k)), b64(&e)); }
    }
    // ---- u128x1
    { let x: M::u128x1 = m.unpack(st128(&a)); let y: M::u128x1 = m.unpack(st128(&b)); let (xa,xb)=(w128(&a)[0],w128(&b)[0]);
      let f=|v:M::u128x1| by128(v.into());
      chk!(bad,name,"u128x1","xor", f(x^y), b128(&[xa^xb]));
      chk!(bad,name,"u128x1","not", f(!x), b128(&[!xa]));
      chk!(bad,name,"u128x1","andnot", f(x.andnot(y)), b128(&[!xa&xb]));
      macro_rules! rot { ($f:ident,$n:expr) => { chk!(bad,name,"u128x1",stringify!($f), f(x.$f()), b128(&[xa.rotate_right($n)])); } }
      rot!(rotate_each_word_right7,7);rot!(rotate_each_word_right8,8);rot!(rotate_each_word_right11,11);rot!(rotate_each_word_right12,12);rot!(rotate_each_word_right16,16);rot!(rotate_each_word_right20,20);rot!(rotate_each_word_right24,24);rot!(rotate_each_word_right25,25);rot!(rotate_each_word_right32,32);
      macro_rules! sw { ($f:ident,$n:expr) => { chk!(bad,name,"u128x1",stringify!($f), f(x.$f()), b128(&[swapn(xa,$n)])); } }
      sw!(swap1,1);sw!(swap2,2);sw!(swap4,4);sw!(swap8,8);sw!(swap16,16);sw!(swap32,32);sw!(swap64,64);
      chk!(bad,name,"u128x1","bswap", f(x.bswap()), b128(&[xa.swap_bytes()]));
      chk!(bad,name,"u128x1","to_lanes", x.to_lanes().to_vec(), vec![xa]);
      chk!(bad,name,"u128x1","from_lanes", f(M::u128x1::from_lanes([xa])), a.to_vec());
    }
    // ---- 256-bit
    let a2: [u8;32] = r.bytes(i); let b2: [u8;32] = r.bytes(i/6);
    { let x: M::u64x4 = m.unpack(st256(&a2)); let y: M::u64x4 = m.unpack(st256(&b2)); let (xa,xb)=(w64(&a2),w64(&b2));
      let f=|v:M::u64x4| by256(v.into());
      chk!(bad,name,"u64x4","add", f(x+y), b64(&xa.iter().zip(&xb).map(|(p,q)|p.wrapping_add(*q)).collect::<Vec<_>>()));
      chk!(bad,name,"u64x4","not", f(!x), b64(&xa.iter().map(|p|!p).collect::<Vec<_>>()));
      chk!(bad,name,"u64x4","bswap", f(x.bswap()), b64(&xa.iter().map(|p|p.swap_bytes()).collect::<Vec<_>>()));
      macro_rules! rot { ($f:ident,$n:expr) => { chk!(bad,name,"u64x4",stringify!($f), f(x.$f()), b64(&xa.iter().map(|p|p.rotate_right($n)).collect::<Vec<_>>())); } }
      rot!(rotate_each_word_right7,7);rot!(rotate_each_word_right8,8);rot!(rotate_each_word_right11,11);rot!(rotate_each_word_right12,12);rot!(rotate_each_word_right16,16);rot!(rotate_each_word_right20,20);rot!(rotate_each_word_right24,24);rot!(rotate_each_word_right25,25);rot!(rotate_each_word_right32,32);
      chk!(bad,name,"u64x4","shuffle1230", f(x.shuffle1230()), b64(&[xa[3],xa[0],xa[1],xa[2]]));
      chk!(bad,name,"u64x4","shuffle2301", f(x.shuffle2301()), b64(&[xa[2],xa[3],xa[0],xa[1]]));
      chk!(bad,name,"u64x4","shuffle3012", f(x.shuffle3012()), b64(&[xa[1],xa[2],xa[3],xa[0]]));
      chk!(bad,name,"u64x4","to_lanes", x.to_lanes().to_vec(), xa.clone());
      chk!(bad,name,"u64x4","from_lanes", f(M::u64x4::from_lanes([xa[0],xa[1],xa[2],xa[3]])), a2.to_vec());
      for k in 0..4u32 { chk!(bad,name,"u64x4",format!("extract{k}"), x.extract(k), xa[k as usize]);
         let mut e=xa.clone(); e[k as usize]=xb[0]; chk!(bad,name,"u64x4",format!("insert{k}"), f(x.insert(xb[0],k)), b64(&e)); }
      let mut o=[0u8;32]; chk!(bad,name,"u64x4","write_be", {x.write_be(&mut o); o.to_vec()}, xa.iter().flat_map(|p|p.to_be_bytes()).collect::<Vec<_>>());
    }
    { let x: M::u32x4x2 = m.unpack(st256(&a2)); let y: M::u32x4x2 = m.unpack(st256(&b2)); let (xa,xb)=(w32(&a2),w32(&b2));
      let f=|v:M::u32x4x2| by256(v.into());
      chk!(bad,name,"u32x4x2","add", f(x+y), b32(&xa.iter().zip(&xb).map(|(p,q)|p.wrapping_add(*q)).collect::<Vec<_>>()));
      chk!(bad,name,"u32x4x2","not", f(!x), b32(&xa.iter().map(|p|!p).collect::<Vec<_>>()));
      chk!(bad,name,"u32x4x2","andnot", f(x.andnot(y)), b32(&xa.iter().zip(&xb).map(|(p,q)|!p&q).collect::<Vec<_>>()));
      chk!(bad,name,"u32x4x2","bswap", f(x.bswap()), b32(&xa.iter().map(|p|p.swap_bytes()).collect::<Vec<_>>()));
      macro_rules! rot { ($f:ident,$n:expr) => { chk!(bad,name,"u32x4x2",stringify!($f), f(x.$f()), b32(&xa.iter().map(|p|p.rotate_right($n)).collect::<Vec<_>>())); } }
      rot!(rotate_each_word_right7,7);rot!(rotate_each_word_right8,8);rot!(rotate_each_word_right11,11);rot!(rotate_each_word_right12,12);rot!(rotate_each_word_right16,16);rot!(rotate_each_word_right20,20);rot!(rotate_each_word_right24,24);rot!(rotate_each_word_right25,25);
      let l=x.to_lanes(); chk!(bad,name,"u32x4x2","to_lanes", [by128(l[0].into()),by128(l[1].into())].concat(), a2.to_vec());
      let l0: M::u32x4 = m.unpack(st128(&b2[..16]));
      chk!(bad,name,"u32x4x2","insert1", f(x.insert(l0,1)), [&a2[..16],&b2[..16]].concat());
      chk!(bad,name,"u32x4x2","extract1", by128(x.extract(1).into()), a2[16..].to_vec());
      let mut o=[0u8;32]; chk!(bad,name,"u32x4x2","write_be", {x.write_be(&mut o); o.to_vec()}, xa.iter().flat_map(|p|p.to_be_bytes()).collect::<Vec<_>>());
      chk!(bad,name,"u32x4x2","read_be", f(m.read_be(&a2)), b32(&a2.chunks(4).map(|c|u32::from_be_bytes(c.try_into().unwrap())).collect::<Vec<_>>()));
    }
    // ---- 512-bit u32x4x4
    let a4: [u8;64] = r.bytes(i); let b4: [u8;64] = r.bytes(i/6);
    { let x: M::u32x4x4 = m.unpack(st512(&a4)); let y: M::u32x4x4 = m.unpack(st512(&b4)); let (xa,xb)=(w32(&a4),w32(&b4));
      let f=|v:M::u32x4x4| by512(v.into());
      chk!(bad,name,"u32x4x4","add", f(x+y), b32(&xa.iter().zip(&xb).map(|(p,q)|p.wrapping_add(*q)).collect::<Vec<_>>()));
      chk!(bad,name,"u32x4x4","not", f(!x), b32(&xa.iter().map(|p|!p).collect::<Vec<_>>()));
      chk!(bad,name,"u32x4x4","rot7", f(x.rotate_each_word_right7()), b32(&xa.iter().map(|p|p.rotate_right(7)).collect::<Vec<_>>()));
      chk!(bad,name,"u32x4x4","rot16", f(x.rotate_each_word_right16()), b32(&xa.iter().map(|p|p.rotate_right(16)).collect::<Vec<_>>()));
      chk!(bad,name,"u32x4x4","to_scalars", x.to_scalars().to_vec(), xa.clone());
      let e: Vec<u32> = (0..4).flat_map(|l| {let s=&xa[4*l..4*l+4]; vec![s[3],s[0],s[1],s[2]]}).collect();
      chk!(bad,name,"u32x4x4","lane1230", f(x.shuffle_lane_words1230()), b32(&e));
      let e: Vec<u32> = (0..4).flat_map(|l| {let s=&xa[4*l..4*l+4]; vec![s[1],s[2],s[3],s[0]]}).collect();
      chk!(bad,name,"u32x4x4","lane3012", f(x.shuffle_lane_words3012()), b32(&e));
      let c4: [u8;64] = r.bytes(5); let d4: [u8;64] = r.bytes(5);
      let z: M::u32x4x4 = m.unpack(st512(&c4)); let w: M::u32x4x4 = m.unpack(st512(&d4));
      let rows=[&a4,&b4,&c4,&d4];
      let want: Vec<Vec<u8>> = (0..4).map(|j| (0..4).flat_map(|i| rows[i][16*j..16*j+16].to_vec()).collect()).collect();
      chk!(bad,name,"u32x4x4","transpose4", { let (p,q,rr,s)=M::u32x4x4::transpose4(x,y,z,w); vec![f(p),f(q),f(rr),f(s)] }, want);
      let mut o=[0u8;64]; chk!(bad,name,"u32x4x4","write_le", {x.write_le(&mut o); o.to_vec()}, a4.to_vec());
      for k in 0..4u32 { chk!(bad,name,"u32x4x4",format!("extract{k}"), by128(x.extract(k).into()), a4[16*k as usize..16*k as usize+16].to_vec()); 
        let l0: M::u32x4 = m.unpack(st128(&b4[..16])); let mut e=a4.to_vec(); e[16*k as usize..16*k as usize+16].copy_from_slice(&b4[..16]);
        chk!(bad,name,"u32x4x4",format!("insert{k}"), f(x.insert(l0,k)), e); }
    }
    { let x: M::u64x2x4 = m.unpack(st512(&a4)); let y: M::u64x2x4 = m.unpack(st512(&b4)); let (xa,xb)=(w64(&a4),w64(&b4));
      let f=|v:M::u64x2x4| by512(v.into());
      chk!(bad,name,"u64x2x4","add", f(x+y), b64(&xa.iter().zip(&xb).map(|(p,q)|p.wrapping_add(*q)).collect::<Vec<_>>())); }
    { let x: M::u128x2 = m.unpack(st256(&a2)); let xa=w128(&a2); let f=|v:M::u128x2| by256(v.into());
      chk!(bad,name,"u128x2","swap8", f(x.swap8()), b128(&xa.iter().map(|p|swapn(*p,8)).collect::<Vec<_>>()));
      chk!(bad,name,"u128x2","not", f(!x), b128(&xa.iter().map(|p|!p).collect::<Vec<_>>())); }
  }
}
#[target_feature(enable = "avx2")] unsafe fn avx2(b:&mut BTreeSet<String>) { sweep(AVX2::instance(), "avx2", b); }
#[target_feature(enable = "avx,sse4.1,ssse3")] unsafe fn avx(b:&mut BTreeSet<String>) { sweep(SSE41::instance(), "avx", b); }
#[target_feature(enable = "sse4.1,ssse3")] unsafe fn sse41(b:&mut BTreeSet<String>) { sweep(SSE41::instance(), "sse41", b); }
#[target_feature(enable = "ssse3")] unsafe fn ssse3(b:&mut BTreeSet<String>) { sweep(SSSE3::instance(), "ssse3", b); }
unsafe fn sse2(b:&mut BTreeSet<String>) { sweep(SSE2::instance(), "sse2", b); }
fn main() {
    std::panic::set_hook(Box::new(|_| {}));
    let mut bad = BTreeSet::new();
    unsafe { avx2(&mut bad); avx(&mut bad); sse41(&mut bad); ssse3(&mut bad); sse2(&mut bad); }
    for b in &bad { println!("{b}"); }
    println!("total bad cells: {}", bad.len());
}
