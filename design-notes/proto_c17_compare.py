import sys
sys.path.insert(0,'/verif/design-notes')
import blake as B, groestl as G, jh as J, skein as S
def msg(n): return bytes(((i*37+11)&255) for i in range(n))
# --- offset-aware variants (same code paths as the validated models, counters shifted)
def blake_off(m,bits,off):
    big=bits>256; W=64 if big else 32; wb=W//8; bl=16*wb; lenbytes=2*wb
    L=off+len(m)*8
    p=bytearray(m)+b'\x80'
    while len(p)%bl != bl-lenbytes: p+=b'\0'
    if bits in (256,512): p[-1]|=0x01
    p+=(L % (1<<(2*W))).to_bytes(lenbytes,'big')
    # reuse compress by re-implementing loop with offset counters
    import types
    # copy of blake.blake's inner pieces
    mask=(1<<W)-1; rot=(32,25,16,11) if big else (16,12,8,7); C=B.C64 if big else B.C32; rounds=16 if big else 14
    h=list({224:B.IV224,256:B.IV256,384:B.IV384,512:B.IV512}[bits])
    ror=lambda x,n:((x>>n)|(x<<(W-n)))&mask
    def compress(h,block,t):
        mm=[int.from_bytes(block[i*wb:(i+1)*wb],'big') for i in range(16)]
        v=h[:]+[C[0],C[1],C[2],C[3],(t&mask)^C[4],(t&mask)^C[5],((t>>W)&mask)^C[6],((t>>W)&mask)^C[7]]
        def Gf(a,b,c,d,r,i):
            s=B.SIGMA[r%10]
            v[a]=(v[a]+v[b]+(mm[s[2*i]]^C[s[2*i+1]]))&mask; v[d]=ror(v[d]^v[a],rot[0]); v[c]=(v[c]+v[d])&mask; v[b]=ror(v[b]^v[c],rot[1])
            v[a]=(v[a]+v[b]+(mm[s[2*i+1]]^C[s[2*i]]))&mask; v[d]=ror(v[d]^v[a],rot[2]); v[c]=(v[c]+v[d])&mask; v[b]=ror(v[b]^v[c],rot[3])
        for r in range(rounds):
            Gf(0,4,8,12,r,0);Gf(1,5,9,13,r,1);Gf(2,6,10,14,r,2);Gf(3,7,11,15,r,3);Gf(0,5,10,15,r,4);Gf(1,6,11,12,r,5);Gf(2,7,8,13,r,6);Gf(3,4,9,14,r,7)
        return [h[i]^v[i]^v[i+8] for i in range(8)]
    nb=len(p)//bl; ml=len(m)*8
    for i in range(nb):
        mbits=min(ml,(i+1)*bl*8)
        t=(off+mbits) if mbits>i*bl*8 else 0
        h=compress(h,p[i*bl:(i+1)*bl],t)
    return b''.join(x.to_bytes(wb,'big') for x in h)[:bits//8]
def groestl_off(m,n,off):
    l=512 if n<=256 else 1024; cols=l//64; rounds=10 if l==512 else 14; bl=l//8
    iv=bytearray(bl); iv[-2]=n>>8; iv[-1]=n&255; h=bytes(iv)
    padded=m+b'\x80'
    while len(padded)%bl!=bl-8: padded+=b'\0'
    nblocks=(len(padded)+8)//bl+off
    padded+=(nblocks%(1<<64)).to_bytes(8,'big')
    for o in range(0,len(padded),bl):
        mm=padded[o:o+bl]; hm=bytes(a^b for a,b in zip(h,mm))
        pp=G.from_state(G.perm(G.to_state(hm,cols),cols,rounds,'P'),cols); q=G.from_state(G.perm(G.to_state(mm,cols),cols,rounds,'Q'),cols)
        h=bytes(a^b^c for a,b,c in zip(pp,q,h))
    pp=G.from_state(G.perm(G.to_state(h,cols),cols,rounds,'P'),cols)
    return bytes(a^b for a,b in zip(pp,h))[-n//8:]
def jh_off(m,bits,off):
    H=bytearray(128); H[0]=bits>>8; H[1]=bits&255; H=J.F8(bytes(H),bytes(64))
    l=(off+len(m))*8
    pad=m+b'\x80'
    if len(m)%64==0: pad+=bytes(64-1-16)
    else: pad+=bytes((64-len(pad)%64)%64)+bytes(64-16)
    pad+=l.to_bytes(16,'big')
    for i in range(0,len(pad),64): H=J.F8(H,pad[i:i+64])
    return H[128-bits//8:]
def skein_off(sb,ob,m,off):
    nb=sb//8
    cfg=b'SHA3'+(1).to_bytes(2,'little')+bytes(2)+(ob*8).to_bytes(8,'little')+bytes(16)
    Gs=S.ubi([0]*(nb//8),cfg,S.T_CFG,nb)
    blocks=[m[i:i+nb] for i in range(0,len(m),nb)] or [b'']
    pos=off
    for idx,b in enumerate(blocks):
        pos+=len(b); first=idx==0; final=idx==len(blocks)-1
        t0=pos&S.M64; t1=(S.T_MSG<<56)|(int(first)<<62)|(int(final)<<63)
        bp=b+bytes(nb-len(b)); mw=S.words(bp); e=S.tf_enc(Gs,t0,t1,mw); Gs=[e[i]^mw[i] for i in range(len(mw))]
    out=b''; i=0
    while len(out)<ob: out+=S.unwords(S.ubi(Gs,i.to_bytes(8,'little'),S.T_OUT,nb)); i+=1
    return out[:ob]
bad=0;n=0
for line in open('/tmp/c17.txt'):
    name,off,ln,hexd=line.split(); off=int(off); m=msg(int(ln))
    if name.startswith('blake'): w=blake_off(m,int(name[5:]),off)
    elif name.startswith('groestl'): w=groestl_off(m,int(name[7:]),off)
    elif name.startswith('jh'): w=jh_off(m,int(name[2:]),off)
    else:
        st,ob=name[5:].split('-'); w=skein_off(int(st),int(ob),m,off)
    n+=1
    if w.hex()!=hexd: bad+=1; print("MISMATCH",name,off,ln)
print("C17 compared",n,"bad",bad)
