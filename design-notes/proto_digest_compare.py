import sys, time
sys.path.insert(0,'/verif/design-notes')
import blake, groestl, jh, skein
def msg(n,pat):
    if pat==0: return bytes(((i*37+11)&255) for i in range(n))
    return bytes([{1:0xff,2:0x80,3:0}[pat]])*n
bad=0; n=0; t0=time.time()
only=sys.argv[1] if len(sys.argv)>1 else None
for line in open('/tmp/digests.txt'):
    name,pat,ln,hexd=line.split(); pat=int(pat); ln=int(ln)
    if only and not name.startswith(only): continue
    m=msg(ln,pat)
    if name.startswith('blake'): want=blake.blake(m,int(name[5:]))
    elif name.startswith('groestl'): want=groestl.groestl(m,int(name[7:]))
    elif name.startswith('jh'): want=jh.jh(m,int(name[2:]))[0]
    else:
        st,nb=name[5:].split('-'); want=skein.skein(int(st),int(nb),m)
    n+=1
    if want.hex()!=hexd:
        bad+=1; print("MISMATCH",name,pat,ln)
print(only,"compared",n,"bad",bad,"in %.1fs"%(time.time()-t0))
