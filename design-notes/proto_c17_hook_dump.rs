// Probe C17: fast-forward counters via hooks to just before word boundaries, then hash real data.
use digest::{Digest, generic_array::typenum::*};
fn msg(len: usize) -> Vec<u8> { (0..len).map(|i| (i as u8).wrapping_mul(37).wrapping_add(11)).collect() }
fn hx(x:&[u8])->String{ x.iter().map(|b| format!("{:02x}",b)).collect() }
fn main(){
  for &len in &[0usize,1,55,56,63,64,65,127,128,129,200,300,513] { let m=msg(len);
    // BLAKE-256/224: bit counter; offsets in bits (multiple of 512)
    for &off in &[(1u128<<32)-512, (1u128<<32)-1024, (1u128<<32), (3u128<<32)-512, (1u128<<63)-512] {
      let mut h=blake_hash::Blake256::new(); h.verif_set_counter((off as u32,(off>>32) as u32)); h.update(&m); println!("blake256 {off} {len} {}", hx(&h.finalize()));
      let mut h=blake_hash::Blake224::new(); h.verif_set_counter((off as u32,(off>>32) as u32)); h.update(&m); println!("blake224 {off} {len} {}", hx(&h.finalize())); }
    for &off in &[(1u128<<64)-1024, (1u128<<64)-2048, (1u128<<64), (1u128<<32)-1024, (5u128<<64)-1024, (1u128<<127)-1024] {
      let mut h=blake_hash::Blake512::new(); h.verif_set_counter((off as u64,(off>>64) as u64)); h.update(&m); println!("blake512 {off} {len} {}", hx(&h.finalize()));
      let mut h=blake_hash::Blake384::new(); h.verif_set_counter((off as u64,(off>>64) as u64)); h.update(&m); println!("blake384 {off} {len} {}", hx(&h.finalize())); }
    for &off in &[254u64,255,256,65534,65535,(1<<32)-2,(1<<32)-1,1<<32,(1<<40)-1,(1<<56)-2, u64::MAX-10] {
      let mut h=groestl_aesni::Groestl256::new(); h.verif_set_counter(off); h.update(&m); println!("groestl256 {off} {len} {}", hx(&h.finalize()));
      let mut h=groestl_aesni::Groestl224::new(); h.verif_set_counter(off); h.update(&m); println!("groestl224 {off} {len} {}", hx(&h.finalize()));
      let mut h=groestl_aesni::Groestl512::new(); h.verif_set_counter(off); h.update(&m); println!("groestl512 {off} {len} {}", hx(&h.finalize()));
      let mut h=groestl_aesni::Groestl384::new(); h.verif_set_counter(off); h.update(&m); println!("groestl384 {off} {len} {}", hx(&h.finalize())); }
    for &off in &[(1u64<<29)-64,(1<<29),(1<<32)-64,(1<<32),(1<<53)-64,(1<<60),(1<<61)-1024] {
      let mut h=jh_x86_64::Jh256::new(); h.verif_set_counter(off as usize); h.update(&m); println!("jh256 {off} {len} {}", hx(&h.finalize()));
      let mut h=jh_x86_64::Jh512::new(); h.verif_set_counter(off as usize); h.update(&m); println!("jh512 {off} {len} {}", hx(&h.finalize())); }
    for &off in &[(1u64<<32)-128,(1<<32)-64,(1<<32),(1<<40)-128,(1<<63), u64::MAX-1023] {
      let mut h=skein_hash::Skein256::<U32>::new(); h.verif_set_counter(off); h.update(&m); println!("skein256-32 {off} {len} {}", hx(&h.finalize()));
      let mut h=skein_hash::Skein512::<U64>::new(); h.verif_set_counter(off); h.update(&m); println!("skein512-64 {off} {len} {}", hx(&h.finalize()));
      let mut h=skein_hash::Skein1024::<U128>::new(); h.verif_set_counter(off); h.update(&m); println!("skein1024-128 {off} {len} {}", hx(&h.finalize())); }
  }
}
