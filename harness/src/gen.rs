//! Shared generators and serialisable case building blocks.

use crate::engine::splitmix;
use proptest::prelude::*;
use serde::{Deserialize, Deserializer, Serialize, Serializer};

/// Byte string serialised as lower-case hex (readable replay files).
#[derive(Clone, PartialEq, Eq, Default)]
pub struct HexBytes(pub Vec<u8>);

impl std::fmt::Debug for HexBytes {
    fn fmt(&self, f: &mut std::fmt::Formatter) -> std::fmt::Result {
        write!(f, "x\"{}\"", crate::refmodels::hex(&self.0))
    }
}
impl Serialize for HexBytes {
    fn serialize<S: Serializer>(&self, s: S) -> Result<S::Ok, S::Error> {
        s.serialize_str(&crate::refmodels::hex(&self.0))
    }
}
impl<'de> Deserialize<'de> for HexBytes {
    fn deserialize<D: Deserializer<'de>>(d: D) -> Result<Self, D::Error> {
        let s = String::deserialize(d)?;
        if s.len() % 2 != 0 || !s.bytes().all(|c| c.is_ascii_hexdigit()) {
            return Err(serde::de::Error::custom("bad hex"));
        }
        Ok(HexBytes(crate::refmodels::unhex(&s)))
    }
}

/// 128-bit unsigned serialised as a hex string (serde_json::Value cannot hold u128).
#[derive(Clone, Copy, PartialEq, Eq, PartialOrd, Ord, Default)]
pub struct W128(pub u128);
impl std::fmt::Debug for W128 {
    fn fmt(&self, f: &mut std::fmt::Formatter) -> std::fmt::Result {
        write!(f, "{:#x}", self.0)
    }
}
impl Serialize for W128 {
    fn serialize<S: Serializer>(&self, s: S) -> Result<S::Ok, S::Error> {
        s.serialize_str(&format!("{:#x}", self.0))
    }
}
impl<'de> Deserialize<'de> for W128 {
    fn deserialize<D: Deserializer<'de>>(d: D) -> Result<Self, D::Error> {
        let s = String::deserialize(d)?;
        let t = s.trim_start_matches("0x");
        u128::from_str_radix(t, 16).map(W128).map_err(|_| serde::de::Error::custom("bad u128"))
    }
}

/// `n` bytes: uniform 60 %, structured 40 % (zero, all-ones, single bit, ramp, 0x80/0x7f mix,
/// one all-ones 32-bit word) - the patterns that expose dropped/swapped words, sign tricks and
/// carries between words.
pub fn bytes_n(n: usize) -> BoxedStrategy<HexBytes> {
    prop_oneof![
        12 => prop::collection::vec(any::<u8>(), n..=n),
        1 => Just(vec![0u8; n]),
        1 => Just(vec![0xffu8; n]),
        2 => (0..n * 8).prop_map(move |bit| {
            let mut v = vec![0u8; n];
            v[bit / 8] = 1 << (bit % 8);
            v
        }),
        1 => (any::<u8>()).prop_map(move |s| (0..n).map(|i| (i as u8).wrapping_add(s)).collect()),
        1 => prop::collection::vec(prop_oneof![Just(0x80u8), Just(0x7fu8)], n..=n),
        1 => (0..(n / 4).max(1)).prop_map(move |w| {
            let mut v = vec![0u8; n];
            for i in 0..4.min(n) {
                v[(4 * w + i) % n] = 0xff;
            }
            v
        }),
        1 => (0..n * 8).prop_map(move |bit| {
            let mut v = vec![0xffu8; n];
            v[bit / 8] ^= 1 << (bit % 8);
            v
        }),
        // 128-bit lanes drawn from two values in every arrangement (AABB, ABAB, ABBA, AAAB, ...): code that
        // special-cases equal lanes (splat fast paths, caches keyed on part of the data) needs partial equality
        if n >= 32 && n % 16 == 0 { 2 } else { 0 } => (prop::collection::vec(any::<u8>(), 32..=32), any::<u16>()).prop_map(move |(ab, arr)| {
            let mut v = Vec::with_capacity(n);
            for l in 0..n / 16 {
                let which = ((arr >> l) & 1) as usize;
                v.extend_from_slice(&ab[16 * which..16 * which + 16]);
            }
            v
        }),
    ]
    .prop_map(HexBytes)
    .boxed()
}

/// A (possibly long) message described by three scalars; expanded by a fixed function so that it
/// shrinks as scalars.
#[derive(Clone, Debug, Serialize, Deserialize, PartialEq, Eq)]
pub struct Msg {
    pub seed: u64,
    pub len: usize,
    /// 0 = pseudo-random, 1 = all 00, 2 = all ff, 3 = 0x80 bytes, 4 = counter bytes, 5 = single bit
    pub pat: u8,
}

impl Msg {
    pub fn bytes(&self) -> Vec<u8> {
        expand(self.seed, self.len, self.pat)
    }
}

pub fn expand(seed: u64, len: usize, pat: u8) -> Vec<u8> {
    match pat {
        1 => vec![0u8; len],
        2 => vec![0xffu8; len],
        3 => vec![0x80u8; len],
        4 => (0..len).map(|i| (i as u64).wrapping_add(seed) as u8).collect(),
        5 => {
            let mut v = vec![0u8; len];
            if len > 0 {
                let bit = (seed as usize) % (len * 8);
                v[bit / 8] = 1 << (bit % 8);
            }
            v
        }
        _ => {
            let mut s = seed;
            let mut v = Vec::with_capacity(len + 8);
            while v.len() < len {
                v.extend_from_slice(&splitmix(&mut s).to_le_bytes());
            }
            v.truncate(len);
            v
        }
    }
}

pub fn pattern() -> BoxedStrategy<u8> {
    prop_oneof![10 => Just(0u8), 1 => Just(1u8), 1 => Just(2u8), 1 => Just(3u8), 1 => Just(4u8), 1 => Just(5u8)].boxed()
}

/// message with a length strategy
pub fn msg(len: BoxedStrategy<usize>) -> BoxedStrategy<Msg> {
    (any::<u64>(), len, pattern()).prop_map(|(seed, len, pat)| Msg { seed, len, pat }).boxed()
}

/// lengths biased to the boundaries of a block size `b`: every residue, k*b-1, k*b, k*b+1
pub fn len_around_blocks(b: usize, max_blocks: usize) -> BoxedStrategy<usize> {
    prop_oneof![
        3 => 0..=(max_blocks * b + 2),
        2 => (0..=max_blocks, 0usize..3).prop_map(move |(k, d)| (k * b + d).saturating_sub(1)),
        1 => 0..=(2 * b),
    ]
    .boxed()
}

/// monotone index map (shrinks towards 0): i in 0..2^16 -> 0..len
pub fn idx(i: u16, len: usize) -> usize {
    ((i as usize) * len) >> 16
}
