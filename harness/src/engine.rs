//! Runner glue: proptest `TestRunner` driven from a binary with a fixed XorShift seed, case
//! classification and counting, shrinking to a minimal case, replay, known-finding exclusion and
//! the worker report that the driver merges into the evidence file.

use proptest::strategy::{Strategy, ValueTree};
use proptest::test_runner::{Config, RngAlgorithm, TestCaseError, TestError, TestRng, TestRunner};
use serde::de::DeserializeOwned;
use serde::Serialize;
use serde_json::{json, Value};
use std::cell::RefCell;
use std::collections::{BTreeMap, HashSet};
use std::io::{Seek, SeekFrom, Write};
use std::panic::{catch_unwind, AssertUnwindSafe};

#[derive(Clone, Copy, PartialEq, Eq, Debug)]
pub enum Tier {
    Quick,
    Thorough,
}

/// A property violation found by a checker.
#[derive(Clone, Debug)]
pub struct Fail {
    /// root-cause signature: stable coordinates of what failed (not a stack hash)
    pub sig: String,
    pub detail: String,
}

impl Fail {
    pub fn new(sig: impl Into<String>, detail: impl Into<String>) -> Fail {
        Fail { sig: sig.into(), detail: detail.into() }
    }
}

/// Per-case classification filled in by the checker.
#[derive(Default)]
pub struct CaseInfo {
    pub labels: Vec<String>,
    pub nontrivial: bool,
    /// signatures of known findings that this case ran into (and that were skipped)
    pub known_hits: Vec<String>,
}

impl CaseInfo {
    pub fn label(&mut self, l: impl Into<String>) {
        self.labels.push(l.into());
    }
    pub fn label_if(&mut self, c: bool, l: &str) {
        if c {
            self.labels.push(l.to_string());
        }
    }
}

pub fn fnv1a(data: &[u8]) -> u64 {
    let mut h: u64 = 0xcbf29ce484222325;
    for b in data {
        h ^= *b as u64;
        h = h.wrapping_mul(0x100000001b3);
    }
    h
}

pub fn splitmix(x: &mut u64) -> u64 {
    *x = x.wrapping_add(0x9E3779B97F4A7C15);
    let mut z = *x;
    z = (z ^ (z >> 30)).wrapping_mul(0xBF58476D1CE4E5B9);
    z = (z ^ (z >> 27)).wrapping_mul(0x94D049BB133111EB);
    z ^ (z >> 31)
}

/// Run a closure that calls into the code under test; a panic becomes `Err(message)`.
pub fn guard<T>(f: impl FnOnce() -> T) -> Result<T, String> {
    match catch_unwind(AssertUnwindSafe(f)) {
        Ok(v) => Ok(v),
        Err(e) => {
            let msg = if let Some(s) = e.downcast_ref::<&str>() {
                s.to_string()
            } else if let Some(s) = e.downcast_ref::<String>() {
                s.clone()
            } else {
                "panic".to_string()
            };
            Err(msg)
        }
    }
}

struct Counters {
    evals: u64,
    seen: HashSet<u64>,
    classes: BTreeMap<String, u64>,
    samples: Vec<Value>,
    nontrivial_samples: Vec<Value>,
    known_hits: BTreeMap<String, u64>,
    failed: bool,
}

pub struct Ctx {
    pub prop: String,
    pub config: String,
    pub level: String,
    pub tier: Tier,
    pub seed: u64,
    pub known: Vec<String>,
    pub replay: Option<(String, Value)>,
    /// run only the sub-checks whose name contains one of these strings (parallel fan-out)
    pub only: Vec<String>,
    /// multiply the case counts (for calibration / ad-hoc deep runs)
    pub scale: f64,
    /// bound on proptest shrink iterations (lower it for expensive checkers)
    pub max_shrink: u32,
    /// this worker is the one that runs the heavy enumerated cases of its check (multi-MiB messages)
    pub primary: bool,
    pub violations: Vec<Value>,
    pub harness_errors: Vec<String>,
    pub subs: Vec<Value>,
    pub exhaustive_dimensions: Vec<String>,
    pub notes: Vec<String>,
    pub required_classes: Vec<String>,
    evals: u64,
    seen: HashSet<u64>,
    classes: BTreeMap<String, u64>,
    samples: Vec<Value>,
    known_hits: BTreeMap<String, u64>,
    progress: Option<std::fs::File>,
    pub replay_dir: String,
    start: std::time::Instant,
}

impl Ctx {
    pub fn new(prop: &str, config: &str, level: &str, tier: Tier, seed: u64) -> Ctx {
        let progress = std::env::var("VERIF_PROGRESS").ok().and_then(|p| {
            std::fs::OpenOptions::new().create(true).write(true).truncate(true).open(p).ok()
        });
        Ctx {
            prop: prop.to_string(),
            config: config.to_string(),
            level: level.to_string(),
            tier,
            seed,
            known: Vec::new(),
            replay: None,
            only: Vec::new(),
            scale: 1.0,
            max_shrink: 20_000,
            primary: false,
            violations: Vec::new(),
            harness_errors: Vec::new(),
            subs: Vec::new(),
            exhaustive_dimensions: Vec::new(),
            notes: Vec::new(),
            required_classes: Vec::new(),
            evals: 0,
            seen: HashSet::new(),
            classes: BTreeMap::new(),
            samples: Vec::new(),
            known_hits: BTreeMap::new(),
            progress,
            replay_dir: std::env::var("VERIF_REPLAY_DIR").unwrap_or_else(|_| "/verif/replays".to_string()),
            start: std::time::Instant::now(),
        }
    }

    pub fn is_known(&self, sig: &str) -> bool {
        self.known.iter().any(|k| k == sig)
    }

    /// quick/thorough case count with the calibration scale applied
    pub fn count(&self, quick: u32, thorough: u32) -> u32 {
        let n = if self.tier == Tier::Quick { quick } else { thorough };
        let v = (n as f64 * self.scale).ceil() as u32;
        v.max(1)
    }

    pub fn cfg_label(&self) -> String {
        if self.level.is_empty() || self.level == "host" {
            self.config.clone()
        } else {
            format!("{}@{}", self.config, self.level)
        }
    }

    fn sub_seed(&self, sub: &str) -> [u8; 16] {
        let mut s = self.seed ^ fnv1a(format!("{}/{}/{}", self.prop, sub, self.cfg_label()).as_bytes());
        let a = splitmix(&mut s);
        let b = splitmix(&mut s);
        let mut out = [0u8; 16];
        out[..8].copy_from_slice(&a.to_le_bytes());
        out[8..].copy_from_slice(&b.to_le_bytes());
        out
    }

    fn write_progress(&mut self, sub: &str, case: &Value) {
        if let Some(f) = self.progress.as_mut() {
            let s = serde_json::to_vec(&json!({"property": self.prop, "sub": sub, "config": self.config,
                "level": self.level, "case": case}))
            .unwrap();
            let _ = f.seek(SeekFrom::Start(0));
            let _ = f.write_all(&s);
            let _ = f.set_len(s.len() as u64);
        }
    }

    /// Run `cases` generated cases of `strat` through `check`; shrink the first failure.
    pub fn run<S, F>(&mut self, sub: &str, cases: u32, strat: S, check: F)
    where
        S: Strategy,
        S::Value: Serialize + DeserializeOwned + Clone + std::fmt::Debug,
        F: Fn(&S::Value, &mut CaseInfo) -> Result<(), Fail>,
    {
        if self.replay.is_none() && !self.only.is_empty() && !self.only.iter().any(|o| sub.contains(o.as_str())) {
            return;
        }
        // ---- replay mode: run exactly the stored case of the matching sub-check
        if let Some((rsub, rcase)) = self.replay.clone() {
            if rsub != sub {
                return;
            }
            let case: S::Value = match serde_json::from_value(rcase.clone()) {
                Ok(c) => c,
                Err(e) => {
                    self.harness_errors.push(format!("replay case does not parse for {}: {}", sub, e));
                    return;
                }
            };
            self.write_progress(sub, &rcase);
            let mut info = CaseInfo::default();
            self.evals += 1;
            match catch_unwind(AssertUnwindSafe(|| check(&case, &mut info))) {
                Ok(Ok(())) => {
                    println!("replay {} {}: case passes", self.prop, sub);
                }
                Ok(Err(f)) => {
                    println!("replay {} {}: FAIL sig={} detail={}", self.prop, sub, f.sig, f.detail);
                    self.violations.push(json!({"sub": sub, "sig": f.sig, "detail": f.detail,
                        "config": self.config, "level": self.level, "case": rcase}));
                }
                Err(_) => self.harness_errors.push(format!("harness panic while replaying {}", sub)),
            }
            return;
        }

        let known = self.known.clone();
        let want_progress = self.progress.is_some();
        let cnt = RefCell::new(Counters {
            evals: 0,
            seen: HashSet::new(),
            classes: BTreeMap::new(),
            samples: Vec::new(),
            nontrivial_samples: Vec::new(),
            known_hits: BTreeMap::new(),
            failed: false,
        });
        let cfg_label = self.cfg_label();
        let prog = RefCell::new(Vec::<Value>::new());
        let config = Config {
            cases,
            failure_persistence: None,
            max_shrink_iters: self.max_shrink,
            max_local_rejects: 65_536,
            max_global_rejects: 65_536,
            ..Config::default()
        };
        let rng = TestRng::from_seed(RngAlgorithm::XorShift, &self.sub_seed(sub));
        let mut runner = TestRunner::new_with_rng(config, rng);
        let t0 = std::time::Instant::now();
        let self_ptr: *mut Ctx = self;
        let result = runner.run(&strat, |case| {
            let mut info = CaseInfo::default();
            if want_progress {
                // SAFETY: single-threaded; only the progress file handle is touched
                let v = serde_json::to_value(&case).unwrap_or(Value::Null);
                unsafe { (*self_ptr).write_progress(sub, &v) };
            }
            let r = check(&case, &mut info);
            let r = match r {
                Err(f) if known.iter().any(|k| *k == f.sig) => {
                    info.known_hits.push(f.sig.clone());
                    Ok(())
                }
                other => other,
            };
            let mut c = cnt.borrow_mut();
            if !c.failed {
                c.evals += 1;
                for k in &info.known_hits {
                    *c.known_hits.entry(k.clone()).or_insert(0) += 1;
                }
                for l in &info.labels {
                    *c.classes.entry(l.clone()).or_insert(0) += 1;
                }
                let need_sample = c.samples.len() < 2 || (info.nontrivial && c.nontrivial_samples.len() < 2);
                if info.nontrivial || need_sample {
                    let js = serde_json::to_string(&case).unwrap_or_default();
                    if info.nontrivial {
                        let h = fnv1a(format!("{}|{}|{}", cfg_label, sub, js).as_bytes());
                        c.seen.insert(h);
                    }
                    if need_sample {
                        let v = json!({"sub": sub, "config": cfg_label, "nontrivial": info.nontrivial,
                            "labels": info.labels, "case": serde_json::from_str::<Value>(&js).unwrap_or(Value::Null)});
                        if info.nontrivial && c.nontrivial_samples.len() < 2 {
                            c.nontrivial_samples.push(v);
                        } else {
                            c.samples.push(v);
                        }
                    }
                }
            }
            match r {
                Ok(()) => Ok(()),
                Err(f) => {
                    c.failed = true;
                    prog.borrow_mut().clear();
                    Err(TestCaseError::fail(format!("{}|{}", f.sig, f.detail)))
                }
            }
        });
        let c = cnt.into_inner();
        self.evals += c.evals;
        let sub_nontrivial = c.seen.len();
        for h in c.seen {
            self.seen.insert(h);
        }
        for (k, v) in c.classes.iter() {
            *self.classes.entry(format!("{}:{}", sub, k)).or_insert(0) += v;
        }
        for (k, v) in c.known_hits {
            *self.known_hits.entry(k).or_insert(0) += v;
        }
        for s in c.samples.into_iter().chain(c.nontrivial_samples.into_iter()) {
            if self.samples.len() < 40 {
                self.samples.push(s);
            }
        }
        self.subs.push(json!({"sub": sub, "config": self.cfg_label(), "cases_requested": cases,
            "evaluations": c.evals, "distinct_nontrivial": sub_nontrivial, "wall_s": t0.elapsed().as_secs_f64()}));
        match result {
            Ok(()) => {}
            Err(TestError::Fail(reason, minimal)) => {
                // re-evaluate the minimal case to get its own signature and detail
                let mut info = CaseInfo::default();
                let (sig, detail) = match catch_unwind(AssertUnwindSafe(|| check(&minimal, &mut info))) {
                    Ok(Err(f)) => (f.sig, f.detail),
                    Ok(Ok(())) => {
                        // can happen if the failure is not deterministic
                        let r = reason.message().to_string();
                        let mut it = r.splitn(2, '|');
                        (format!("{}:nondeterministic", it.next().unwrap_or("?")), it.next().unwrap_or("").to_string())
                    }
                    Err(_) => {
                        self.harness_errors.push(format!("harness panic in {} (reason: {})", sub, reason.message()));
                        return;
                    }
                };
                if sig.starts_with("HARNESS") || reason.message().contains("panicked") && !reason.message().contains('|') {
                    self.harness_errors.push(format!("{}: {} {}", sub, sig, detail));
                    return;
                }
                let case_v = serde_json::to_value(&minimal).unwrap_or(Value::Null);
                let replay = json!({"property": self.prop, "sub": sub, "config": self.config, "level": self.level,
                    "sig": sig, "detail": detail, "seed": self.seed, "case": case_v});
                let fname = format!("{}/{}-{:016x}.json", self.replay_dir, self.prop,
                    fnv1a(format!("{}|{}|{}", sig, self.cfg_label(), sub).as_bytes()));
                let _ = std::fs::create_dir_all(&self.replay_dir);
                let _ = std::fs::write(&fname, serde_json::to_vec_pretty(&replay).unwrap());
                self.violations.push(json!({"sub": sub, "sig": sig, "detail": detail, "config": self.config,
                    "level": self.level, "case": case_v, "replay": fname}));
            }
            Err(TestError::Abort(reason)) => {
                self.harness_errors.push(format!("{}: generator aborted: {}", sub, reason.message()));
            }
        }
    }

    /// Run an explicit list of cases (exhaustive sweeps) through the same kind of checker as `run`.
    /// No shrinking: the failing element itself is the replay case.
    pub fn run_list<C, F>(&mut self, sub: &str, cases: Vec<C>, check: F)
    where
        C: Serialize + DeserializeOwned + Clone + std::fmt::Debug,
        F: Fn(&C, &mut CaseInfo) -> Result<(), Fail>,
    {
        if self.replay.is_none() && !self.only.is_empty() && !self.only.iter().any(|o| sub.contains(o.as_str())) {
            return;
        }
        if let Some((rsub, rcase)) = self.replay.clone() {
            if rsub != sub {
                return;
            }
            match serde_json::from_value::<C>(rcase.clone()) {
                Ok(case) => {
                    self.write_progress(sub, &rcase);
                    let mut info = CaseInfo::default();
                    self.evals += 1;
                    match catch_unwind(AssertUnwindSafe(|| check(&case, &mut info))) {
                        Ok(Ok(())) => println!("replay {} {}: case passes", self.prop, sub),
                        Ok(Err(f)) => {
                            println!("replay {} {}: FAIL sig={} detail={}", self.prop, sub, f.sig, f.detail);
                            self.violations.push(json!({"sub": sub, "sig": f.sig, "detail": f.detail,
                                "config": self.config, "level": self.level, "case": rcase}));
                        }
                        Err(_) => self.harness_errors.push(format!("harness panic while replaying {}", sub)),
                    }
                }
                Err(e) => self.harness_errors.push(format!("replay case does not parse for {}: {}", sub, e)),
            }
            return;
        }
        let t0 = std::time::Instant::now();
        // strongly scaled-down workers (scale < 0.2: slow profiles, secondary configurations, calibration runs)
        // take every k-th element of a sweep; the complete sweep is done by the primary workers
        let stride = if self.scale < 0.2 { (1.0 / self.scale.max(0.001)).ceil() as usize } else { 1 };
        let cases: Vec<C> = if stride > 1 {
            let off = (self.seed as usize) % stride;
            cases.into_iter().enumerate().filter(|(i, _)| i % stride == off).map(|(_, c)| c).collect()
        } else {
            cases
        };
        let total = cases.len();
        let mut evals = 0u64;
        let mut nontriv = 0usize;
        for (i, case) in cases.iter().enumerate() {
            let v = serde_json::to_value(case).unwrap_or(Value::Null);
            if self.progress.is_some() {
                self.write_progress(sub, &v);
            }
            let mut info = CaseInfo::default();
            let r = match catch_unwind(AssertUnwindSafe(|| check(case, &mut info))) {
                Ok(r) => r,
                Err(_) => {
                    self.harness_errors.push(format!("harness panic in {} element {}", sub, i));
                    return;
                }
            };
            evals += 1;
            self.evals += 1;
            for l in &info.labels {
                *self.classes.entry(format!("{}:{}", sub, l)).or_insert(0) += 1;
            }
            for k in &info.known_hits {
                *self.known_hits.entry(k.clone()).or_insert(0) += 1;
            }
            if info.nontrivial {
                let h = fnv1a(format!("{}|{}|{}", self.cfg_label(), sub, v).as_bytes());
                if self.seen.insert(h) {
                    nontriv += 1;
                }
            }
            if i == 0 || i + 1 == total || i == total / 2 {
                let s = json!({"sub": sub, "config": self.cfg_label(), "nontrivial": info.nontrivial, "labels": info.labels, "case": v});
                self.add_sample(s);
            }
            if let Err(f) = r {
                if self.violation(sub, f, v) {
                    break;
                }
            }
        }
        self.subs.push(json!({"sub": sub, "config": self.cfg_label(), "cases_requested": total, "enumerated": true,
            "evaluations": evals, "distinct_nontrivial": nontriv, "wall_s": t0.elapsed().as_secs_f64()}));
    }

    /// Record one enumerated (non-generated) evaluation, e.g. an exhaustive sweep element.
    pub fn record_enumerated(&mut self, sub: &str, case: &Value, nontrivial: bool, labels: &[&str]) {
        self.evals += 1;
        for l in labels {
            *self.classes.entry(format!("{}:{}", sub, l)).or_insert(0) += 1;
        }
        if nontrivial {
            let h = fnv1a(format!("{}|{}|{}", self.cfg_label(), sub, case).as_bytes());
            self.seen.insert(h);
        }
    }

    pub fn add_sample(&mut self, v: Value) {
        if self.samples.len() < 60 {
            self.samples.push(v);
        }
    }

    /// Report a violation found outside a proptest run (enumerations); honours known findings.
    /// Returns true if it was recorded as a violation.
    pub fn violation(&mut self, sub: &str, f: Fail, case: Value) -> bool {
        if self.is_known(&f.sig) {
            *self.known_hits.entry(f.sig).or_insert(0) += 1;
            return false;
        }
        if self.violations.iter().any(|v| v["sig"] == f.sig.as_str()) {
            return true;
        }
        let replay = json!({"property": self.prop, "sub": sub, "config": self.config, "level": self.level,
            "sig": f.sig, "detail": f.detail, "seed": self.seed, "case": case});
        let fname = format!("{}/{}-{:016x}.json", self.replay_dir, self.prop,
            fnv1a(format!("{}|{}|{}", f.sig, self.cfg_label(), sub).as_bytes()));
        let _ = std::fs::create_dir_all(&self.replay_dir);
        let _ = std::fs::write(&fname, serde_json::to_vec_pretty(&replay).unwrap());
        self.violations.push(json!({"sub": sub, "sig": f.sig, "detail": f.detail, "config": self.config,
            "level": self.level, "case": case, "replay": fname}));
        true
    }

    pub fn class_count(&self, key: &str) -> u64 {
        self.classes.iter().filter(|(k, _)| k.ends_with(key)).map(|(_, v)| *v).sum()
    }

    pub fn report(&self) -> Value {
        let mut missing = Vec::new();
        if self.replay.is_none() && self.violations.is_empty() {
            for rc in &self.required_classes {
                if self.only.is_empty() && self.class_count(rc) == 0 {
                    missing.push(rc.clone());
                }
            }
        }
        json!({
            "property": self.prop,
            "config": self.config,
            "level": self.level,
            "tier": if self.tier == Tier::Quick { "quick" } else { "thorough" },
            "seed": self.seed,
            "evaluations": self.evals,
            "distinct_nontrivial": self.seen.len(),
            "classes": self.classes,
            "samples": self.samples,
            "subs": self.subs,
            "violations": self.violations,
            "known_hits": self.known_hits,
            "harness_errors": self.harness_errors,
            "missing_required_classes": missing,
            "required_classes": self.required_classes,
            "exhaustive_dimensions": self.exhaustive_dimensions,
            "notes": self.notes,
            "wall_s": self.start.elapsed().as_secs_f64(),
        })
    }
}

/// Shrink-friendly generated value tree helper: produce one value from a strategy with a runner
/// (used by enumerating checks that still want generated content).
pub fn sample_one<S: Strategy>(runner: &mut TestRunner, s: &S) -> S::Value {
    s.new_tree(runner).expect("strategy").current()
}

pub fn runner_for(seed: u64, tag: &str) -> TestRunner {
    let mut s = seed ^ fnv1a(tag.as_bytes());
    let a = splitmix(&mut s);
    let b = splitmix(&mut s);
    let mut sd = [0u8; 16];
    sd[..8].copy_from_slice(&a.to_le_bytes());
    sd[8..].copy_from_slice(&b.to_le_bytes());
    TestRunner::new_with_rng(
        Config { failure_persistence: None, ..Config::default() },
        TestRng::from_seed(RngAlgorithm::XorShift, &sd),
    )
}

/// Evaluates a matrix of (type, operation) cells on one generated operand set. Every cell is
/// executed; the first failing cell (in canonical order) that is not a known finding becomes the
/// failure of the case, known cells are counted and skipped.
pub struct Cells<'a> {
    pub known: &'a [String],
    pub info: &'a mut CaseInfo,
    pub first: Option<Fail>,
    pub executed: u32,
}

impl<'a> Cells<'a> {
    pub fn new(known: &'a [String], info: &'a mut CaseInfo) -> Cells<'a> {
        Cells { known, info, first: None, executed: 0 }
    }
    /// `cell` = "<prop>:<backend>:<type>:<op>"
    pub fn check<T: PartialEq + std::fmt::Debug>(&mut self, cell: &str, got: impl FnOnce() -> T, want: T) {
        self.executed += 1;
        let r = guard(got);
        let (kind, detail) = match r {
            Ok(g) => {
                if g == want {
                    return;
                }
                ("WRONG", format!("got {:x?} want {:x?}", g, want))
            }
            Err(p) => ("PANIC", format!("panicked: {}", p)),
        };
        let sig = format!("{}:{}", cell, kind);
        if self.known.iter().any(|k| *k == sig) {
            self.info.known_hits.push(sig);
            return;
        }
        if self.first.is_none() {
            let mut d = detail;
            d.truncate(700);
            self.first = Some(Fail::new(sig, d));
        }
    }
    pub fn finish(self) -> Result<(), Fail> {
        self.info.label(format!("cells executed per case: {}", self.executed));
        match self.first {
            Some(f) => Err(f),
            None => Ok(()),
        }
    }
}
