use serde_json::Value;
use vh::engine::{Ctx, Tier};

fn arg(args: &[String], name: &str) -> Option<String> {
    args.iter().position(|a| a == name).and_then(|i| args.get(i + 1).cloned())
}

fn main() {
    let args: Vec<String> = std::env::args().collect();
    // silent panic hook: panics of the code under test are caught and classified by the checkers
    if std::env::var("VERIF_LOUD_PANICS").is_err() {
        std::panic::set_hook(Box::new(|_| {}));
    }
    if args.len() >= 3 && args[1] == "c18-child" {
        std::process::exit(vh::props::conc::child_main(&args[2]));
    }
    if args.iter().any(|a| a == "selftest") {
        let deep = args.iter().any(|a| a == "--deep");
        match vh::refmodels::selftest(deep) {
            Ok(n) => {
                println!("selftest ok: {} KAT records + published vectors ({})", n, vh::build_config());
                std::process::exit(0);
            }
            Err(e) => {
                println!("SELFTEST FAILED: {}", e);
                std::process::exit(2);
            }
        }
    }
    let prop = arg(&args, "--prop").expect("--prop");
    let tier = match arg(&args, "--tier").as_deref() {
        Some("thorough") => Tier::Thorough,
        _ => Tier::Quick,
    };
    let seed: u64 = arg(&args, "--seed").and_then(|s| s.parse().ok()).unwrap_or(0);
    let level = arg(&args, "--level").unwrap_or_else(|| "host".into());
    let config = arg(&args, "--config").unwrap_or_else(|| vh::build_config().to_string());
    let out = arg(&args, "--out");
    if let Err(e) = vh::set_level(&level) {
        println!("HARNESS ERROR: {}", e);
        std::process::exit(2);
    }
    let mut ctx = Ctx::new(&prop, &config, &level, tier, seed);
    if let Some(k) = arg(&args, "--known") {
        ctx.known = k.split(',').filter(|s| !s.is_empty()).map(|s| s.to_string()).collect();
    }
    if let Some(o) = arg(&args, "--only") {
        ctx.only = o.split(',').filter(|s| !s.is_empty()).map(|s| s.to_string()).collect();
    }
    ctx.primary = arg(&args, "--primary").is_some() || out.is_none();
    if let Some(s) = arg(&args, "--scale") {
        ctx.scale = s.parse().unwrap_or(1.0);
    }
    if let Some(f) = arg(&args, "--replay") {
        let txt = std::fs::read_to_string(&f).expect("replay file");
        let v: Value = serde_json::from_str(&txt).expect("replay json");
        ctx.replay = Some((v["sub"].as_str().unwrap_or("").to_string(), v["case"].clone()));
    }
    // the reference models must validate before any comparison is believed
    if let Err(e) = vh::refmodels::selftest(false) {
        println!("SELFTEST FAILED: {}", e);
        std::process::exit(2);
    }
    if !vh::props::run(&mut ctx) {
        println!("HARNESS ERROR: unknown property {}", prop);
        std::process::exit(2);
    }
    let rep = ctx.report();
    let txt = serde_json::to_string_pretty(&rep).unwrap();
    match out {
        Some(p) => std::fs::write(p, txt).expect("write report"),
        None => println!("{}", txt),
    }
    let nviol = rep["violations"].as_array().map(|a| a.len()).unwrap_or(0);
    let nerr = rep["harness_errors"].as_array().map(|a| a.len()).unwrap_or(0)
        + rep["missing_required_classes"].as_array().map(|a| a.len()).unwrap_or(0);
    if nviol > 0 {
        std::process::exit(1);
    }
    if nerr > 0 {
        std::process::exit(2);
    }
}
