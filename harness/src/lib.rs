//! Verification harness for cryptocorrosion: property-based testing against independent
//! reference models. See /verif/DESIGN.md.
#![allow(clippy::all)]

pub mod engine;
pub mod gen;
pub mod props;
pub mod refmodels;

/// Name of the build configuration this binary was compiled for.
pub fn build_config() -> &'static str {
    if cfg!(feature = "cfg-nosimd") {
        "nosimd"
    } else if cfg!(feature = "cfg-nounroll") {
        "nounroll"
    } else if cfg!(feature = "cfg-std") {
        "std"
    } else {
        "nostd"
    }
}

/// Emulated host level for the run-time dispatchers (hook; std configuration only).
pub fn set_level(level: &str) -> Result<(), String> {
    #[cfg(all(feature = "cfg-std", not(feature = "cfg-nosimd")))]
    {
        use ppv_lite86::x86_64::verif;
        let (l, feat_ok) = match level {
            "host" | "" => (verif::HOST, true),
            "sse2" => (verif::SSE2, true),
            "ssse3" => (verif::SSSE3, std::is_x86_feature_detected!("ssse3")),
            "sse41" => (verif::SSE41, std::is_x86_feature_detected!("sse4.1")),
            "avx" => (verif::AVX, std::is_x86_feature_detected!("avx")),
            "avx2" => (verif::AVX2, std::is_x86_feature_detected!("avx2")),
            _ => return Err(format!("unknown level {}", level)),
        };
        if !feat_ok {
            return Err(format!("host does not support level {}", level));
        }
        verif::set_level(l);
        return Ok(());
    }
    #[allow(unreachable_code)]
    {
        if level == "host" || level.is_empty() {
            Ok(())
        } else {
            Err(format!("level {} is not available in configuration {}", level, build_config()))
        }
    }
}
