//! Reference models. Plain safe Rust on integers and `Vec`s, written from the specifications;
//! nothing here depends on any crate under /repo.

pub mod blake;
pub mod chacha;
pub mod groestl;
pub mod jh;
pub mod skein;
pub mod vecops;

pub fn unhex(s: &str) -> Vec<u8> {
    let s: Vec<u8> = s.bytes().filter(|c| !c.is_ascii_whitespace()).collect();
    assert!(s.len() % 2 == 0);
    s.chunks(2)
        .map(|p| {
            let h = (p[0] as char).to_digit(16).unwrap() as u8;
            let l = (p[1] as char).to_digit(16).unwrap() as u8;
            (h << 4) | l
        })
        .collect()
}

pub fn hex(b: &[u8]) -> String {
    let mut s = String::with_capacity(b.len() * 2);
    for x in b {
        s.push_str(&format!("{:02x}", x));
    }
    s
}

/// Lazily built tables shared by all users of the table-driven models.
pub struct Models {
    pub jh: jh::JhTables,
    pub groestl: groestl::GroestlTables,
}

pub fn models() -> &'static Models {
    static M: std::sync::OnceLock<Models> = std::sync::OnceLock::new();
    M.get_or_init(|| Models { jh: jh::JhTables::new(), groestl: groestl::GroestlTables::new() })
}

/// Parse a `blobby` 0.1 file (the KAT files copied from the submission packages / RustCrypto):
/// header "blobbyN", then records of an N-byte little-endian length followed by the bytes.
pub fn parse_blb(data: &[u8]) -> Result<Vec<Vec<u8>>, String> {
    if data.len() < 7 || &data[..6] != b"blobby" {
        return Err("bad blb header".into());
    }
    let n = match data[6] {
        b'1' => 1,
        b'2' => 2,
        b'4' => 4,
        b'8' => 8,
        _ => return Err("bad blb index size".into()),
    };
    let mut out = Vec::new();
    let mut p = 7;
    while p < data.len() {
        if p + n > data.len() {
            return Err("truncated blb".into());
        }
        let mut len = 0usize;
        for i in 0..n {
            len |= (data[p + i] as usize) << (8 * i);
        }
        p += n;
        if p + len > data.len() {
            return Err("truncated blb record".into());
        }
        out.push(data[p..p + len].to_vec());
        p += len;
    }
    Ok(out)
}

pub fn kat_dir() -> String {
    std::env::var("VERIF_KAT_DIR").unwrap_or_else(|_| concat!(env!("CARGO_MANIFEST_DIR"), "/../corpus/kat").to_string())
}

fn kat_pairs(file: &str) -> Result<Vec<(Vec<u8>, Vec<u8>)>, String> {
    let path = format!("{}/{}", kat_dir(), file);
    let data = std::fs::read(&path).map_err(|e| format!("{}: {}", path, e))?;
    let recs = parse_blb(&data)?;
    if recs.len() % 2 != 0 || recs.is_empty() {
        return Err(format!("{}: odd record count", file));
    }
    Ok(recs.chunks(2).map(|c| (c[0].clone(), c[1].clone())).collect())
}

/// Validate every reference model against published vectors and the committed KAT files.
/// `deep` additionally runs the long JH / Groestl KAT files completely.
pub fn selftest(deep: bool) -> Result<usize, String> {
    let m = models();
    chacha::selftest()?;
    blake::selftest()?;
    skein::selftest()?;
    jh::selftest(&m.jh)?;
    groestl::selftest(&m.groestl)?;
    vecops::selftest()?;
    let mut n = 0usize;
    for bits in [224u32, 256, 384, 512] {
        for (i, (msg, dig)) in kat_pairs(&format!("blake{}.blb", bits))?.iter().enumerate() {
            if &blake::blake(bits, msg) != dig {
                return Err(format!("blake{} KAT #{}", bits, i));
            }
            n += 1;
        }
        let g = kat_pairs(&format!("groestl{}.blb", bits))?;
        let step = if deep { 1 } else { 16 };
        for (i, (msg, dig)) in g.iter().enumerate().step_by(step) {
            if &groestl::groestl(&m.groestl, bits, msg) != dig {
                return Err(format!("groestl{} KAT #{}", bits, i));
            }
            n += 1;
        }
        let j = kat_pairs(&format!("ShortMsgKAT_{}.blb", bits))?;
        for (i, (msg, dig)) in j.iter().enumerate().step_by(step) {
            if &jh::jh(&m.jh, bits, msg) != dig {
                return Err(format!("jh{} short KAT #{}", bits, i));
            }
            n += 1;
        }
        if deep {
            let j = kat_pairs(&format!("LongMsgKAT_{}.blb", bits))?;
            for (i, (msg, dig)) in j.iter().enumerate().step_by(8) {
                if &jh::jh(&m.jh, bits, msg) != dig {
                    return Err(format!("jh{} long KAT #{}", bits, i));
                }
                n += 1;
            }
        }
    }
    for (state, outs) in [(256usize, [32usize, 64]), (512, [32, 64]), (1024, [32, 64])] {
        for o in outs {
            for (i, (msg, dig)) in kat_pairs(&format!("skein{}_{}.blb", state, o))?.iter().enumerate() {
                if &skein::skein(state, o, msg) != dig {
                    return Err(format!("skein{}_{} KAT #{}", state, o, i));
                }
                n += 1;
            }
        }
    }
    Ok(n)
}
