//! ChaCha / HChaCha reference, written from Bernstein's "ChaCha, a variant of Salsa20" and
//! RFC 7539. 16 plain `u32` words, quarter-rounds on index tuples. Nothing is imported from the
//! crates under test.

const SIGMA: [u32; 4] = [0x6170_7865, 0x3320_646e, 0x7962_2d32, 0x6b20_6574]; // "expand 32-byte k"

#[inline]
fn qr(s: &mut [u32; 16], a: usize, b: usize, c: usize, d: usize) {
    s[a] = s[a].wrapping_add(s[b]);
    s[d] = (s[d] ^ s[a]).rotate_left(16);
    s[c] = s[c].wrapping_add(s[d]);
    s[b] = (s[b] ^ s[c]).rotate_left(12);
    s[a] = s[a].wrapping_add(s[b]);
    s[d] = (s[d] ^ s[a]).rotate_left(8);
    s[c] = s[c].wrapping_add(s[d]);
    s[b] = (s[b] ^ s[c]).rotate_left(7);
}

/// The ChaCha permutation: `drounds` double rounds (column round + diagonal round).
pub fn permute(s: &mut [u32; 16], drounds: u32) {
    for _ in 0..drounds {
        qr(s, 0, 4, 8, 12);
        qr(s, 1, 5, 9, 13);
        qr(s, 2, 6, 10, 14);
        qr(s, 3, 7, 11, 15);
        qr(s, 0, 5, 10, 15);
        qr(s, 1, 6, 11, 12);
        qr(s, 2, 7, 8, 13);
        qr(s, 3, 4, 9, 14);
    }
}

fn le32(b: &[u8]) -> u32 {
    (b[0] as u32) | (b[1] as u32) << 8 | (b[2] as u32) << 16 | (b[3] as u32) << 24
}

/// Initial state from a key and the four last state words.
pub fn init_state(key: &[u8; 32], last4: [u32; 4]) -> [u32; 16] {
    let mut s = [0u32; 16];
    s[..4].copy_from_slice(&SIGMA);
    for i in 0..8 {
        s[4 + i] = le32(&key[4 * i..]);
    }
    s[12..].copy_from_slice(&last4);
    s
}

/// One keystream block: permutation, feed-forward, little-endian serialisation.
pub fn block_from_state(input: &[u32; 16], drounds: u32) -> [u8; 64] {
    let mut x = *input;
    permute(&mut x, drounds);
    let mut out = [0u8; 64];
    for i in 0..16 {
        let w = x[i].wrapping_add(input[i]);
        out[4 * i..4 * i + 4].copy_from_slice(&[w as u8, (w >> 8) as u8, (w >> 16) as u8, (w >> 24) as u8]);
    }
    out
}

/// HChaCha: permutation without feed-forward, words 0..3 and 12..15.
pub fn hchacha(key: &[u8; 32], nonce16: &[u8], drounds: u32) -> [u8; 32] {
    assert_eq!(nonce16.len(), 16);
    let mut x = init_state(
        key,
        [le32(&nonce16[0..]), le32(&nonce16[4..]), le32(&nonce16[8..]), le32(&nonce16[12..])],
    );
    permute(&mut x, drounds);
    let mut out = [0u8; 32];
    for (i, w) in x[0..4].iter().chain(x[12..16].iter()).enumerate() {
        out[4 * i..4 * i + 4].copy_from_slice(&w.to_le_bytes());
    }
    out
}

#[derive(Clone, Copy, Debug, PartialEq, Eq)]
pub enum Layout {
    /// 64-bit block counter (words 12,13) + 64-bit nonce (words 14,15)
    Djb,
    /// 32-bit block counter (word 12) + 96-bit nonce (words 13..15), RFC 7539
    Ietf,
    /// HChaCha subkey from nonce[0..16], then Djb layout with nonce[16..24]
    X,
}

#[derive(Clone, Copy, Debug, PartialEq, Eq)]
pub struct Variant {
    pub name: &'static str,
    pub drounds: u32,
    pub layout: Layout,
}

pub const VARIANTS: [Variant; 7] = [
    Variant { name: "ChaCha8", drounds: 4, layout: Layout::Djb },
    Variant { name: "ChaCha12", drounds: 6, layout: Layout::Djb },
    Variant { name: "ChaCha20", drounds: 10, layout: Layout::Djb },
    Variant { name: "Ietf", drounds: 10, layout: Layout::Ietf },
    Variant { name: "XChaCha8", drounds: 4, layout: Layout::X },
    Variant { name: "XChaCha12", drounds: 6, layout: Layout::X },
    Variant { name: "XChaCha20", drounds: 10, layout: Layout::X },
];

impl Variant {
    pub fn nonce_len(&self) -> usize {
        match self.layout {
            Layout::Djb => 8,
            Layout::Ietf => 12,
            Layout::X => 24,
        }
    }
    /// Number of keystream bytes the variant offers.
    pub fn stream_len(&self) -> u128 {
        match self.layout {
            Layout::Ietf => 1u128 << 38,
            _ => 1u128 << 70,
        }
    }
}

/// A keyed reference stream.
pub struct RefStream {
    pub variant: Variant,
    key: [u8; 32],
    last3: [u32; 3], // words 13..15 (Ietf) or [unused, 14, 15]
}

impl RefStream {
    pub fn new(variant: Variant, key: &[u8; 32], nonce: &[u8]) -> RefStream {
        assert_eq!(nonce.len(), variant.nonce_len());
        match variant.layout {
            Layout::Djb => RefStream { variant, key: *key, last3: [0, le32(&nonce[0..]), le32(&nonce[4..])] },
            Layout::Ietf => RefStream {
                variant,
                key: *key,
                last3: [le32(&nonce[0..]), le32(&nonce[4..]), le32(&nonce[8..])],
            },
            Layout::X => {
                let sub = hchacha(key, &nonce[..16], variant.drounds);
                RefStream { variant, key: sub, last3: [0, le32(&nonce[16..]), le32(&nonce[20..])] }
            }
        }
    }
    /// Keystream block with index `idx` (must be inside the stream).
    pub fn block(&self, idx: u128) -> [u8; 64] {
        assert!(idx * 64 < self.variant.stream_len());
        let last4 = match self.variant.layout {
            Layout::Ietf => [idx as u32, self.last3[0], self.last3[1], self.last3[2]],
            _ => [idx as u32, (idx >> 32) as u32, self.last3[1], self.last3[2]],
        };
        block_from_state(&init_state(&self.key, last4), self.variant.drounds)
    }
    /// Keystream bytes `pos .. pos+len` (must be inside the stream).
    pub fn bytes(&self, pos: u128, len: usize) -> Vec<u8> {
        assert!(pos + len as u128 <= self.variant.stream_len());
        let mut out = Vec::with_capacity(len);
        let mut p = pos;
        let end = pos + len as u128;
        while p < end {
            let b = self.block(p / 64);
            let off = (p % 64) as usize;
            let take = core::cmp::min(64 - off, (end - p) as usize);
            out.extend_from_slice(&b[off..off + take]);
            p += take as u128;
        }
        out
    }
}

/// Block-level API reference (guts::ChaCha): key, 64-bit counter (words 12,13), 64-bit stream id
/// (words 14,15), any number of double rounds.
pub fn guts_block(key: &[u8; 32], counter: u64, stream: u64, drounds: u32) -> [u8; 64] {
    let last4 = [counter as u32, (counter >> 32) as u32, stream as u32, (stream >> 32) as u32];
    block_from_state(&init_state(key, last4), drounds)
}

/// The (counter, stream-id) pair `guts::ChaCha::new` is documented to start from.
pub fn guts_params_from_nonce(nonce: &[u8]) -> (u64, u64) {
    let n = nonce.len();
    let w1 = if n == 12 { le32(&nonce[0..]) } else { 0 };
    let w2 = le32(&nonce[n - 8..]);
    let w3 = le32(&nonce[n - 4..]);
    ((w1 as u64) << 32, (w3 as u64) << 32 | w2 as u64)
}

fn hex(s: &str) -> Vec<u8> {
    super::unhex(s)
}

pub fn selftest() -> Result<(), String> {
    // RFC 7539 2.3.2 block function test vector
    let key: [u8; 32] = core::array::from_fn(|i| i as u8);
    let nonce = hex("000000090000004a00000000");
    let s = RefStream::new(VARIANTS[3], &key, &nonce);
    let b = s.block(1);
    let want = hex("10f1e7e4d13b5915500fdd1fa32071c4c7d1f4c733c068030422aa9ac3d46c4ed2826446079faa0914c2d705d98b02a2b5129cd1de164eb9cbd083e8a2503c4e");
    if b[..] != want[..] {
        return Err("chacha: RFC 7539 2.3.2 block mismatch".into());
    }
    // RFC 7539 2.4.2: first 16 bytes of ciphertext of the sunscreen text at counter 1
    let nonce = hex("000000000000004a00000000");
    let s = RefStream::new(VARIANTS[3], &key, &nonce);
    let ks = s.bytes(64, 16);
    let pt = b"Ladies and Gentl";
    let ct: Vec<u8> = ks.iter().zip(pt.iter()).map(|(a, b)| a ^ b).collect();
    if ct != hex("6e2e359a2568f98041ba0728dd0d6981") {
        return Err("chacha: RFC 7539 2.4.2 mismatch".into());
    }
    // draft-irtf-cfrg-xchacha 2.2.1 HChaCha20 vector
    let k = hex("000102030405060708090a0b0c0d0e0f101112131415161718191a1b1c1d1e1f");
    let n = hex("000000090000004a0000000031415927");
    let mut kk = [0u8; 32];
    kk.copy_from_slice(&k);
    let h = hchacha(&kk, &n, 10);
    if h[..] != hex("82413b4227b27bfed30e42508a877d73a0f9e4d58a74a853c12ec41326d3ecdc")[..] {
        return Err("chacha: HChaCha20 vector mismatch".into());
    }
    // ChaCha20 (djb) all-zero key/nonce, block 0 (widely published)
    let s = RefStream::new(VARIANTS[2], &[0u8; 32], &[0u8; 8]);
    if s.block(0)[..16] != hex("76b8e0ada0f13d90405d6ae55386bd28")[..] {
        return Err("chacha: ChaCha20 zero vector mismatch".into());
    }
    // ChaCha8 / ChaCha12 zero key, zero nonce (from the eSTREAM / draft-strombergson vectors)
    let s = RefStream::new(VARIANTS[0], &[0u8; 32], &[0u8; 8]);
    if s.block(0)[..16] != hex("3e00ef2f895f40d67f5bb8e81f09a5a1")[..] {
        return Err("chacha: ChaCha8 zero vector mismatch".into());
    }
    let s = RefStream::new(VARIANTS[1], &[0u8; 32], &[0u8; 8]);
    if s.block(0)[..16] != hex("9bf49a6a0755f953811fce125f2683d5")[..] {
        return Err("chacha: ChaCha12 zero vector mismatch".into());
    }
    Ok(())
}
