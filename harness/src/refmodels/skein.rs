//! Threefish-256/512/1024 and Skein (simple hashing, any output length) reference, written from
//! the Skein 1.3 specification. Word loops with the spec's forward permutation pi, subkeys computed
//! on the fly, UBI with a 96-bit position.

const R4: [[u32; 2]; 8] = [[14, 16], [52, 57], [23, 40], [5, 37], [25, 33], [46, 12], [58, 22], [32, 32]];
const R8: [[u32; 4]; 8] = [
    [46, 36, 19, 37], [33, 27, 14, 42], [17, 49, 36, 39], [44, 9, 54, 56],
    [39, 30, 34, 24], [13, 50, 10, 17], [25, 29, 39, 43], [8, 35, 56, 22],
];
const R16: [[u32; 8]; 8] = [
    [24, 13, 8, 47, 8, 17, 22, 37], [38, 19, 10, 55, 49, 18, 23, 52],
    [33, 4, 51, 13, 34, 41, 59, 17], [5, 20, 48, 41, 47, 28, 16, 25],
    [41, 9, 37, 31, 12, 47, 44, 30], [16, 34, 56, 51, 4, 53, 42, 41],
    [31, 44, 47, 46, 19, 42, 44, 25], [9, 48, 35, 52, 23, 31, 37, 20],
];
const PI4: [usize; 4] = [0, 3, 2, 1];
const PI8: [usize; 8] = [2, 1, 4, 7, 6, 5, 0, 3];
const PI16: [usize; 16] = [0, 9, 2, 13, 6, 11, 4, 15, 10, 7, 12, 3, 14, 5, 8, 1];
const C240: u64 = 0x1BD11BDAA9FC1A22;

fn rot(nw: usize, d: usize, j: usize) -> u32 {
    match nw {
        4 => R4[d % 8][j],
        8 => R8[d % 8][j],
        16 => R16[d % 8][j],
        _ => unreachable!(),
    }
}
fn pi(nw: usize) -> &'static [usize] {
    match nw {
        4 => &PI4,
        8 => &PI8,
        16 => &PI16,
        _ => unreachable!(),
    }
}
fn nrounds(nw: usize) -> usize {
    if nw == 16 { 80 } else { 72 }
}

fn subkey(key: &[u64], t: [u64; 2], s: usize) -> Vec<u64> {
    let nw = key.len();
    let mut k: Vec<u64> = key.to_vec();
    let mut kx = C240;
    for w in key {
        kx ^= *w;
    }
    k.push(kx);
    let t3 = [t[0], t[1], t[0] ^ t[1]];
    let mut sk: Vec<u64> = (0..nw).map(|i| k[(s + i) % (nw + 1)]).collect();
    sk[nw - 3] = sk[nw - 3].wrapping_add(t3[s % 3]);
    sk[nw - 2] = sk[nw - 2].wrapping_add(t3[(s + 1) % 3]);
    sk[nw - 1] = sk[nw - 1].wrapping_add(s as u64);
    sk
}

pub fn threefish_encrypt(key: &[u64], tweak: [u64; 2], pt: &[u64]) -> Vec<u64> {
    let nw = pt.len();
    assert_eq!(key.len(), nw);
    let nr = nrounds(nw);
    let mut v = pt.to_vec();
    for d in 0..nr {
        if d % 4 == 0 {
            let sk = subkey(key, tweak, d / 4);
            for i in 0..nw {
                v[i] = v[i].wrapping_add(sk[i]);
            }
        }
        let mut f = vec![0u64; nw];
        for j in 0..nw / 2 {
            let (x0, x1) = (v[2 * j], v[2 * j + 1]);
            let y0 = x0.wrapping_add(x1);
            let y1 = x1.rotate_left(rot(nw, d, j)) ^ y0;
            f[2 * j] = y0;
            f[2 * j + 1] = y1;
        }
        let p = pi(nw);
        for i in 0..nw {
            v[i] = f[p[i]];
        }
    }
    let sk = subkey(key, tweak, nr / 4);
    for i in 0..nw {
        v[i] = v[i].wrapping_add(sk[i]);
    }
    v
}

pub fn threefish_decrypt(key: &[u64], tweak: [u64; 2], ct: &[u64]) -> Vec<u64> {
    let nw = ct.len();
    assert_eq!(key.len(), nw);
    let nr = nrounds(nw);
    let sk = subkey(key, tweak, nr / 4);
    let mut v: Vec<u64> = (0..nw).map(|i| ct[i].wrapping_sub(sk[i])).collect();
    for d in (0..nr).rev() {
        let p = pi(nw);
        let mut f = vec![0u64; nw];
        for i in 0..nw {
            f[p[i]] = v[i];
        }
        let mut e = vec![0u64; nw];
        for j in 0..nw / 2 {
            let (y0, y1) = (f[2 * j], f[2 * j + 1]);
            let x1 = (y1 ^ y0).rotate_right(rot(nw, d, j));
            let x0 = y0.wrapping_sub(x1);
            e[2 * j] = x0;
            e[2 * j + 1] = x1;
        }
        v = e;
        if d % 4 == 0 {
            let sk = subkey(key, tweak, d / 4);
            for i in 0..nw {
                v[i] = v[i].wrapping_sub(sk[i]);
            }
        }
    }
    v
}

pub fn words(b: &[u8]) -> Vec<u64> {
    b.chunks(8).map(|c| {
        let mut x = 0u64;
        for (i, y) in c.iter().enumerate() {
            x |= (*y as u64) << (8 * i);
        }
        x
    }).collect()
}
pub fn unwords(w: &[u64]) -> Vec<u8> {
    let mut out = Vec::new();
    for x in w {
        out.extend_from_slice(&x.to_le_bytes());
    }
    out
}

const T_CFG: u128 = 4;
const T_MSG: u128 = 48;
const T_OUT: u128 = 63;

fn ubi_block(g: &[u64], block: &[u8], pos: u128, typ: u128, first: bool, fin: bool) -> Vec<u64> {
    let nb = g.len() * 8;
    let mut bp = block.to_vec();
    bp.resize(nb, 0);
    let tw: u128 = (pos & ((1u128 << 96) - 1)) | (typ << 120) | ((first as u128) << 126) | ((fin as u128) << 127);
    let m = words(&bp);
    let e = threefish_encrypt(g, [tw as u64, (tw >> 64) as u64], &m);
    e.iter().zip(m.iter()).map(|(a, b)| a ^ b).collect()
}

/// UBI over a complete (short) message, used for the configuration and output blocks.
fn ubi(g: &[u64], msg: &[u8], typ: u128) -> Vec<u64> {
    let nb = g.len() * 8;
    let mut g = g.to_vec();
    let blocks: Vec<&[u8]> = if msg.is_empty() { vec![&msg[..]] } else { msg.chunks(nb).collect() };
    let mut pos = 0u128;
    for (i, b) in blocks.iter().enumerate() {
        pos += b.len() as u128;
        g = ubi_block(&g, b, pos, typ, i == 0, i == blocks.len() - 1);
    }
    g
}

/// Streaming Skein: state size in bits (256/512/1024), output length in bytes.
#[derive(Clone)]
pub struct RefSkein {
    g: Vec<u64>,
    out_bytes: usize,
    /// message bytes processed by UBI so far (excluding the held-back buffer)
    pub pos: u128,
    first: bool,
    buf: Vec<u8>,
}

impl RefSkein {
    pub fn new(state_bits: usize, out_bytes: usize) -> RefSkein {
        let nb = state_bits / 8;
        let mut cfg = Vec::new();
        cfg.extend_from_slice(b"SHA3");
        cfg.extend_from_slice(&[1, 0]); // version 1
        cfg.extend_from_slice(&[0, 0]); // reserved
        cfg.extend_from_slice(&((out_bytes as u64) * 8).to_le_bytes());
        cfg.extend_from_slice(&[0u8; 16]); // tree parameters (none) + reserved
        let g = ubi(&vec![0u64; nb / 8], &cfg, T_CFG);
        RefSkein { g, out_bytes, pos: 0, first: true, buf: Vec::new() }
    }
    pub fn block_len(&self) -> usize {
        self.g.len() * 8
    }
    pub fn update(&mut self, data: &[u8]) {
        let nb = self.block_len();
        self.buf.extend_from_slice(data);
        // the last block must be processed with the final flag: hold back up to one full block
        let mut off = 0;
        while self.buf.len() - off > nb {
            self.pos += nb as u128;
            self.g = ubi_block(&self.g, &self.buf[off..off + nb], self.pos, T_MSG, self.first, false);
            self.first = false;
            off += nb;
        }
        self.buf.drain(..off);
    }
    /// C17: declare the number of bytes already processed (chaining value unchanged).
    pub fn set_processed_bytes(&mut self, n: u128) {
        self.pos = n;
    }
    pub fn finalize(mut self) -> Vec<u8> {
        self.pos += self.buf.len() as u128;
        let b = self.buf.clone();
        self.g = ubi_block(&self.g, &b, self.pos, T_MSG, self.first, true);
        let mut out = Vec::new();
        let mut i: u64 = 0;
        while out.len() < self.out_bytes {
            out.extend_from_slice(&unwords(&ubi(&self.g, &i.to_le_bytes(), T_OUT)));
            i += 1;
        }
        out.truncate(self.out_bytes);
        out
    }
}

pub fn skein(state_bits: usize, out_bytes: usize, msg: &[u8]) -> Vec<u8> {
    let mut h = RefSkein::new(state_bits, out_bytes);
    h.update(msg);
    h.finalize()
}

pub fn selftest() -> Result<(), String> {
    use super::unhex as hex;
    // Skein 1.3 Threefish known answers (zero key/tweak/plaintext and the "sequential" vectors)
    let e = threefish_encrypt(&[0; 4], [0, 0], &[0; 4]);
    if unwords(&e) != hex("84da2a1f8beaee947066ae3e3103f1ad536db1f4a1192495116b9f3ce6133fd8") {
        return Err("threefish-256 zero vector".into());
    }
    let key: Vec<u8> = (0x10..0x10 + 64).map(|x| x as u8).collect();
    let pt: Vec<u8> = (0..64).map(|i| (0xff - i) as u8).collect();
    let tw = [0x0706050403020100u64, 0x0f0e0d0c0b0a0908];
    let ct = threefish_encrypt(&words(&key), tw, &words(&pt));
    if unwords(&ct) != hex("e304439626d45a2cb401cad8d636249a6338330eb06d45dd8b36b90e97254779272a0a8d99463504784420ea18c9a725af11dffea10162348927673d5c1caf3d") {
        return Err("threefish-512 sequential vector".into());
    }
    if threefish_decrypt(&words(&key), tw, &ct) != words(&pt) {
        return Err("threefish-512 decrypt".into());
    }
    let key: Vec<u8> = (0x10..0x10 + 32).map(|x| x as u8).collect();
    let pt: Vec<u8> = (0..32).map(|i| (0xff - i) as u8).collect();
    let ct = threefish_encrypt(&words(&key), tw, &words(&pt));
    if unwords(&ct) != hex("e0d091ff0eea8fdfc98192e62ed80ad59d865d08588df476657056b5955e97df") {
        return Err("threefish-256 sequential vector".into());
    }
    if threefish_decrypt(&words(&key), tw, &ct) != words(&pt) {
        return Err("threefish-256 decrypt".into());
    }
    let key: Vec<u8> = (0x10..0x10 + 128).map(|x| x as u8).collect();
    let pt: Vec<u8> = (0..128).map(|i| (0xff - i) as u8).collect();
    let ct = threefish_encrypt(&words(&key), tw, &words(&pt));
    if unwords(&ct)[..32] != hex("a6654ddbd73cc3b05dd777105aa849bce49372eaaffc5568d254771bab85531c")[..] {
        return Err("threefish-1024 sequential vector".into());
    }
    if threefish_decrypt(&words(&key), tw, &ct) != words(&pt) {
        return Err("threefish-1024 decrypt".into());
    }
    // Skein 1.3 appendix vectors
    if skein(256, 32, &[0xff]) != hex("0b98dcd198ea0e50a7a244c444e25c23da30c10fc9a1f270a6637f1f34e67ed2") {
        return Err("skein-256-256(ff)".into());
    }
    if skein(512, 64, &[0xff]) != hex("71b7bce6fe6452227b9ced6014249e5bf9a9754c3ad618ccc4e0aae16b316cc8ca698d864307ed3e80b6ef1570812ac5272dc409b5a012df2a579102f340617a") {
        return Err("skein-512-512(ff)".into());
    }
    if skein(512, 64, &[]) != hex("bc5b4c50925519c290cc634277ae3d6257212395cba733bbad37a4af0fa06af41fca7903d06564fea7a2d3730dbdb80c1f85562dfcc070334ea4d1d9e72cba7a") {
        return Err("skein-512-512(empty)".into());
    }
    let m: Vec<u8> = (0..32).map(|i| (0xff - i) as u8).collect();
    if skein(256, 32, &m) != hex("8d0fa4ef777fd759dfd4044e6f6a5ac3c774aec943dcfc07927b723b5dbf408b") {
        return Err("skein-256-256(32 bytes)".into());
    }
    Ok(())
}
