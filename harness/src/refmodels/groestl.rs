//! Groestl-224/256/384/512 reference, written from the final-round (tweaked) Groestl
//! specification. 8 x N byte matrix, S-box generated from GF(2^8) inversion + affine map (no table
//! typed in), ShiftBytes vectors, MixBytes as a circulant matrix product, block counter as u128.

fn xtime(a: u8) -> u8 {
    let x = (a as u16) << 1;
    if x & 0x100 != 0 { (x ^ 0x11b) as u8 } else { x as u8 }
}
fn gmul(mut a: u8, mut b: u8) -> u8 {
    let mut r = 0u8;
    while b != 0 {
        if b & 1 != 0 {
            r ^= a;
        }
        a = xtime(a);
        b >>= 1;
    }
    r
}

pub struct GroestlTables {
    sbox: [u8; 256],
    mul: [[u8; 256]; 8], // mul[k][x] = x * k for k in 0..8
}

impl GroestlTables {
    pub fn new() -> GroestlTables {
        let mut inv = [0u8; 256];
        for a in 1..=255u8 {
            for b in 1..=255u8 {
                if gmul(a, b) == 1 {
                    inv[a as usize] = b;
                    break;
                }
            }
        }
        let mut sbox = [0u8; 256];
        for a in 0..256usize {
            let x = inv[a];
            let mut y = x;
            for k in 1..5 {
                y ^= x.rotate_left(k);
            }
            sbox[a] = y ^ 0x63;
        }
        let mut mul = [[0u8; 256]; 8];
        for k in 0..8 {
            for x in 0..256usize {
                mul[k][x] = gmul(x as u8, k as u8);
            }
        }
        GroestlTables { sbox, mul }
    }
}

const CIRC: [usize; 8] = [2, 2, 3, 4, 5, 3, 5, 7];

#[derive(Clone, Copy, PartialEq)]
enum Which {
    P,
    Q,
}

/// state[row][col]
fn permutation(t: &GroestlTables, bytes: &[u8], which: Which) -> Vec<u8> {
    let cols = bytes.len() / 8;
    let rounds = if cols == 8 { 10 } else { 14 };
    let sh: [usize; 8] = match (which, cols) {
        (Which::P, 8) => [0, 1, 2, 3, 4, 5, 6, 7],
        (Which::P, _) => [0, 1, 2, 3, 4, 5, 6, 11],
        (Which::Q, 8) => [1, 3, 5, 7, 0, 2, 4, 6],
        (Which::Q, _) => [1, 3, 5, 11, 0, 2, 4, 6],
    };
    // bytes are mapped column by column
    let mut st = vec![vec![0u8; cols]; 8];
    for j in 0..cols {
        for i in 0..8 {
            st[i][j] = bytes[8 * j + i];
        }
    }
    for r in 0..rounds {
        // AddRoundConstant
        match which {
            Which::P => {
                for j in 0..cols {
                    st[0][j] ^= ((j as u8) << 4) ^ (r as u8);
                }
            }
            Which::Q => {
                for i in 0..8 {
                    for j in 0..cols {
                        st[i][j] ^= 0xff;
                    }
                }
                for j in 0..cols {
                    st[7][j] ^= ((j as u8) << 4) ^ (r as u8);
                }
            }
        }
        // SubBytes
        for row in st.iter_mut() {
            for x in row.iter_mut() {
                *x = t.sbox[*x as usize];
            }
        }
        // ShiftBytes: row i rotated left by sh[i]
        let old = st.clone();
        for i in 0..8 {
            for j in 0..cols {
                st[i][j] = old[i][(j + sh[i]) % cols];
            }
        }
        // MixBytes: column <- circ(02,02,03,04,05,03,05,07) * column
        let old = st.clone();
        for j in 0..cols {
            for i in 0..8 {
                let mut v = 0u8;
                for k in 0..8 {
                    v ^= t.mul[CIRC[(k + 8 - i) % 8]][old[k][j] as usize];
                }
                st[i][j] = v;
            }
        }
    }
    let mut out = vec![0u8; bytes.len()];
    for j in 0..cols {
        for i in 0..8 {
            out[8 * j + i] = st[i][j];
        }
    }
    out
}

pub struct RefGroestl<'a> {
    t: &'a GroestlTables,
    bits: u32,
    h: Vec<u8>,
    /// message blocks compressed so far
    pub nblocks: u128,
    buf: Vec<u8>,
}

impl<'a> RefGroestl<'a> {
    pub fn new(t: &'a GroestlTables, bits: u32) -> RefGroestl<'a> {
        let bl = if bits <= 256 { 64 } else { 128 };
        let mut h = vec![0u8; bl];
        h[bl - 2] = (bits >> 8) as u8;
        h[bl - 1] = bits as u8;
        RefGroestl { t, bits, h, nblocks: 0, buf: Vec::new() }
    }
    pub fn block_len(&self) -> usize {
        self.h.len()
    }
    fn compress(&mut self, m: &[u8]) {
        let hm: Vec<u8> = self.h.iter().zip(m.iter()).map(|(a, b)| a ^ b).collect();
        let p = permutation(self.t, &hm, Which::P);
        let q = permutation(self.t, m, Which::Q);
        for i in 0..self.h.len() {
            self.h[i] ^= p[i] ^ q[i];
        }
    }
    pub fn update(&mut self, data: &[u8]) {
        let bl = self.block_len();
        self.buf.extend_from_slice(data);
        let mut off = 0;
        while self.buf.len() - off >= bl {
            let m = self.buf[off..off + bl].to_vec();
            self.compress(&m);
            self.nblocks += 1;
            off += bl;
        }
        self.buf.drain(..off);
    }
    /// C17: declare the number of blocks compressed so far (chaining value unchanged).
    pub fn set_blocks(&mut self, n: u128) {
        self.nblocks = n;
    }
    pub fn finalize(mut self) -> Vec<u8> {
        let bl = self.block_len();
        let mut p = self.buf.clone();
        p.push(0x80);
        while p.len() % bl != bl - 8 {
            p.push(0);
        }
        let total_blocks: u128 = self.nblocks + ((p.len() + 8) / bl) as u128;
        p.extend_from_slice(&(total_blocks as u64).to_be_bytes());
        for m in p.chunks(bl) {
            let m = m.to_vec();
            self.compress(&m);
        }
        // output transformation
        let ph = permutation(self.t, &self.h, Which::P);
        let out: Vec<u8> = ph.iter().zip(self.h.iter()).map(|(a, b)| a ^ b).collect();
        out[bl - (self.bits / 8) as usize..].to_vec()
    }
}

pub fn groestl(t: &GroestlTables, bits: u32, msg: &[u8]) -> Vec<u8> {
    let mut h = RefGroestl::new(t, bits);
    h.update(msg);
    h.finalize()
}

pub fn selftest(t: &GroestlTables) -> Result<(), String> {
    use super::unhex as hex;
    if t.sbox[0] != 0x63 || t.sbox[1] != 0x7c || t.sbox[0x53] != 0xed {
        return Err("groestl: generated S-box is not the AES S-box".into());
    }
    if groestl(t, 256, b"") != hex("1a52d11d550039be16107f9c58db9ebcc417f16f736adb2502567119f0083467") {
        return Err("groestl256(empty)".into());
    }
    if groestl(t, 256, b"abc") != hex("f3c1bb19c048801326a7efbcf16e3d7887446249829c379e1840d1a3a1e7d4d2") {
        return Err("groestl256(abc)".into());
    }
    if groestl(t, 512, b"abc") != hex("70e1c68c60df3b655339d67dc291cc3f1dde4ef343f11b23fdd44957693815a75a8339c682fc28322513fd1f283c18e53cff2b264e06bf83a2f0ac8c1f6fbff6") {
        return Err("groestl512(abc)".into());
    }
    if groestl(t, 224, b"") != hex("f2e180fb5947be964cd584e22e496242c6a329c577fc4ce8c36d34c3") {
        return Err("groestl224(empty)".into());
    }
    Ok(())
}
