//! BLAKE-224/256/384/512 reference, written from the SHA-3 final-round BLAKE specification.
//! v[16] array, G on index tuples, padding built as one byte string, counter as `u128`.
//! The 32-bit and 64-bit families share one generic routine over `u64` words with a mask.

const SIGMA: [[usize; 16]; 10] = [
    [0, 1, 2, 3, 4, 5, 6, 7, 8, 9, 10, 11, 12, 13, 14, 15],
    [14, 10, 4, 8, 9, 15, 13, 6, 1, 12, 0, 2, 11, 7, 5, 3],
    [11, 8, 12, 0, 5, 2, 15, 13, 10, 14, 3, 6, 7, 1, 9, 4],
    [7, 9, 3, 1, 13, 12, 11, 14, 2, 6, 5, 10, 4, 0, 15, 8],
    [9, 0, 5, 7, 2, 4, 10, 15, 14, 1, 11, 12, 6, 8, 3, 13],
    [2, 12, 6, 10, 0, 11, 8, 3, 4, 13, 7, 5, 15, 14, 1, 9],
    [12, 5, 1, 15, 14, 13, 4, 10, 0, 7, 6, 3, 9, 2, 8, 11],
    [13, 11, 7, 14, 12, 1, 3, 9, 5, 0, 15, 4, 8, 6, 2, 10],
    [6, 15, 14, 9, 11, 3, 0, 8, 12, 2, 13, 7, 1, 4, 10, 5],
    [10, 2, 8, 4, 7, 6, 1, 5, 15, 11, 9, 14, 3, 12, 13, 0],
];
// first digits of pi
const C64: [u64; 16] = [
    0x243F6A8885A308D3, 0x13198A2E03707344, 0xA4093822299F31D0, 0x082EFA98EC4E6C89,
    0x452821E638D01377, 0xBE5466CF34E90C6C, 0xC0AC29B7C97C50DD, 0x3F84D5B5B5470917,
    0x9216D5D98979FB1B, 0xD1310BA698DFB5AC, 0x2FFD72DBD01ADFB7, 0xB8E1AFED6A267E96,
    0xBA7C9045F12C7F99, 0x24A19947B3916CF7, 0x0801F2E2858EFC16, 0x636920D871574E69,
];
// SHA-2 initial values
const IV256: [u64; 8] = [0x6A09E667, 0xBB67AE85, 0x3C6EF372, 0xA54FF53A, 0x510E527F, 0x9B05688C, 0x1F83D9AB, 0x5BE0CD19];
const IV224: [u64; 8] = [0xC1059ED8, 0x367CD507, 0x3070DD17, 0xF70E5939, 0xFFC00B31, 0x68581511, 0x64F98FA7, 0xBEFA4FA4];
const IV512: [u64; 8] = [
    0x6A09E667F3BCC908, 0xBB67AE8584CAA73B, 0x3C6EF372FE94F82B, 0xA54FF53A5F1D36F1,
    0x510E527FADE682D1, 0x9B05688C2B3E6C1F, 0x1F83D9ABFB41BD6B, 0x5BE0CD19137E2179,
];
const IV384: [u64; 8] = [
    0xCBBB9D5DC1059ED8, 0x629A292A367CD507, 0x9159015A3070DD17, 0x152FECD8F70E5939,
    0x67332667FFC00B31, 0x8EB44A8768581511, 0xDB0C2E0D64F98FA7, 0x47B5481DBEFA4FA4,
];

#[derive(Clone)]
pub struct RefBlake {
    bits: u32,
    h: [u64; 8],
    /// message bits absorbed so far (unbounded in the spec; u128 here)
    pub nbits: u128,
    buf: Vec<u8>,
}

impl RefBlake {
    pub fn new(bits: u32) -> RefBlake {
        let h = match bits {
            224 => IV224,
            256 => IV256,
            384 => IV384,
            512 => IV512,
            _ => panic!("bad BLAKE size"),
        };
        RefBlake { bits, h, nbits: 0, buf: Vec::new() }
    }
    fn big(&self) -> bool {
        self.bits > 256
    }
    pub fn block_len(&self) -> usize {
        if self.big() { 128 } else { 64 }
    }
    fn word_bits(&self) -> u32 {
        if self.big() { 64 } else { 32 }
    }
    fn c(&self, i: usize) -> u64 {
        if self.big() {
            C64[i]
        } else {
            // the 32-bit constants are the same digits of pi, 32 bits at a time
            let w = C64[i / 2];
            if i % 2 == 0 { w >> 32 } else { w & 0xffff_ffff }
        }
    }
    fn compress(&mut self, block: &[u8], t: u128) {
        let w = self.word_bits();
        let mask: u64 = if w == 64 { u64::MAX } else { 0xffff_ffff };
        let wb = (w / 8) as usize;
        let rot: [u32; 4] = if w == 64 { [32, 25, 16, 11] } else { [16, 12, 8, 7] };
        let rounds = if w == 64 { 16 } else { 14 };
        let ror = |x: u64, n: u32| -> u64 { ((x >> n) | (x << (w - n))) & mask };
        let mut m = [0u64; 16];
        for i in 0..16 {
            let mut x = 0u64;
            for j in 0..wb {
                x = (x << 8) | block[i * wb + j] as u64;
            }
            m[i] = x;
        }
        let tlo = (t as u64) & mask;
        let thi = ((t >> w) as u64) & mask;
        let mut v = [0u64; 16];
        v[..8].copy_from_slice(&self.h);
        for i in 0..4 {
            v[8 + i] = self.c(i); // salt = 0
        }
        v[12] = tlo ^ self.c(4);
        v[13] = tlo ^ self.c(5);
        v[14] = thi ^ self.c(6);
        v[15] = thi ^ self.c(7);
        let cs: [u64; 16] = core::array::from_fn(|i| self.c(i));
        for r in 0..rounds {
            let s = &SIGMA[r % 10];
            let idx: [(usize, usize, usize, usize); 8] = [
                (0, 4, 8, 12), (1, 5, 9, 13), (2, 6, 10, 14), (3, 7, 11, 15),
                (0, 5, 10, 15), (1, 6, 11, 12), (2, 7, 8, 13), (3, 4, 9, 14),
            ];
            for (i, &(a, b, c, d)) in idx.iter().enumerate() {
                v[a] = v[a].wrapping_add(v[b]).wrapping_add(m[s[2 * i]] ^ cs[s[2 * i + 1]]) & mask;
                v[d] = ror(v[d] ^ v[a], rot[0]);
                v[c] = v[c].wrapping_add(v[d]) & mask;
                v[b] = ror(v[b] ^ v[c], rot[1]);
                v[a] = v[a].wrapping_add(v[b]).wrapping_add(m[s[2 * i + 1]] ^ cs[s[2 * i]]) & mask;
                v[d] = ror(v[d] ^ v[a], rot[2]);
                v[c] = v[c].wrapping_add(v[d]) & mask;
                v[b] = ror(v[b] ^ v[c], rot[3]);
            }
        }
        for i in 0..8 {
            self.h[i] ^= v[i] ^ v[i + 8];
        }
    }
    pub fn update(&mut self, data: &[u8]) {
        let bl = self.block_len();
        self.buf.extend_from_slice(data);
        let mut off = 0;
        while self.buf.len() - off >= bl {
            // a full block of message bits (a later finalize never revisits it)
            self.nbits += (bl * 8) as u128;
            let block: Vec<u8> = self.buf[off..off + bl].to_vec();
            let t = self.nbits;
            self.compress(&block, t);
            off += bl;
        }
        self.buf.drain(..off);
    }
    /// C17: declare that `self.nbits` message bits had been compressed before the buffered bytes
    /// (the chaining value is left as it is). Must be a multiple of the block size in bits.
    pub fn set_compressed_bits(&mut self, nbits: u128) {
        self.nbits = nbits;
    }
    pub fn finalize(mut self) -> Vec<u8> {
        let bl = self.block_len();
        let wb = (self.word_bits() / 8) as usize;
        let lenbytes = 2 * wb;
        let rem = self.buf.len();
        let total_bits = self.nbits + (rem as u128) * 8;
        let mut p = self.buf.clone();
        p.push(0x80);
        while p.len() % bl != bl - lenbytes {
            p.push(0);
        }
        if self.bits == 256 || self.bits == 512 {
            let l = p.len();
            p[l - 1] |= 1;
        }
        let lb = total_bits.to_be_bytes(); // 16 bytes
        p.extend_from_slice(&lb[16 - lenbytes..]);
        let nblocks = p.len() / bl;
        for i in 0..nblocks {
            // counter: message bits up to and including this block; 0 if it holds no message bits
            let t = if i == 0 && rem > 0 { total_bits } else { 0 };
            let block = p[i * bl..(i + 1) * bl].to_vec();
            self.compress(&block, t);
        }
        let wbits = self.word_bits();
        let mut out = Vec::new();
        for x in self.h.iter() {
            let b = x.to_be_bytes();
            out.extend_from_slice(&b[8 - (wbits / 8) as usize..]);
        }
        out.truncate((self.bits / 8) as usize);
        out
    }
}

/// The bare compression function on an arbitrary chaining value (C03 drives `put_block::<M>`).
pub fn compress_raw(big: bool, h: [u64; 8], block: &[u8], t: u128) -> [u64; 8] {
    let mut r = RefBlake::new(if big { 512 } else { 256 });
    r.h = h;
    r.compress(block, t);
    r.h
}

pub fn blake(bits: u32, msg: &[u8]) -> Vec<u8> {
    let mut h = RefBlake::new(bits);
    h.update(msg);
    h.finalize()
}

pub fn selftest() -> Result<(), String> {
    use super::unhex as hex;
    let chk = |bits: u32, msg: &[u8], want: &str| -> Result<(), String> {
        if blake(bits, msg) != hex(want) {
            return Err(format!("blake{} selftest mismatch on {} bytes", bits, msg.len()));
        }
        Ok(())
    };
    // vectors from the BLAKE submission document
    chk(256, &[0], "0ce8d4ef4dd7cd8d62dfded9d4edb0a774ae6a41929a74da23109e8f11139c87")?;
    chk(256, &[0u8; 72], "d419bad32d504fb7d44d460c42c5593fe544fa4c135dec31e21bd9abdcc22d41")?;
    chk(224, &[0], "4504cb0314fb2a4f7a692e696e487912fe3f2468fe312c73a5278ec5")?;
    chk(224, &[0u8; 72], "f5aa00dd1cb847e3140372af7b5c46b4888d82c8c0a917913cfb5d04")?;
    chk(512, &[0], "97961587f6d970faba6d2478045de6d1fabd09b61ae50932054d52bc29d31be4ff9102b9f69e2bbdb83be13d4b9c06091e5fa0b48bd081b634058be0ec49beb3")?;
    chk(512, &[0u8; 144], "313717d608e9cf758dcb1eb0f0c3cf9fc150b2d500fb33f51c52afc99d358a2f1374b8a38bba7974e7f6ef79cab16f22ce1e649d6e01ad9589c213045d545dde")?;
    chk(384, &[0], "10281f67e135e90ae8e882251a355510a719367ad70227b137343e1bc122015c29391e8545b5272d13a7c2879da3d807")?;
    chk(384, &[0u8; 144], "0b9845dd429566cdab772ba195d271effe2d0211f16991d766ba749447c5cde569780b2daa66c4b224a2ec2e5d09174c")?;
    Ok(())
}
