//! Scalar meaning of the ppv-lite86 / ppv-null vector operations, on byte strings that hold the
//! vector's words in little-endian packing (word 0 first). `wbits` is the word size the type's name
//! states (32, 64 or 128); a 128-bit lane is 16 bytes.

pub fn words(b: &[u8], wbits: u32) -> Vec<u128> {
    let wb = (wbits / 8) as usize;
    b.chunks(wb)
        .map(|c| {
            let mut x = 0u128;
            for (i, y) in c.iter().enumerate() {
                x |= (*y as u128) << (8 * i);
            }
            x
        })
        .collect()
}

pub fn unwords(w: &[u128], wbits: u32) -> Vec<u8> {
    let wb = (wbits / 8) as usize;
    let mut out = Vec::with_capacity(w.len() * wb);
    for x in w {
        for i in 0..wb {
            out.push((x >> (8 * i)) as u8);
        }
    }
    out
}

fn mask(wbits: u32) -> u128 {
    if wbits == 128 { u128::MAX } else { (1u128 << wbits) - 1 }
}

fn map1(a: &[u8], wbits: u32, f: impl Fn(u128) -> u128) -> Vec<u8> {
    let m = mask(wbits);
    unwords(&words(a, wbits).iter().map(|x| f(*x) & m).collect::<Vec<_>>(), wbits)
}
fn map2(a: &[u8], b: &[u8], wbits: u32, f: impl Fn(u128, u128) -> u128) -> Vec<u8> {
    let m = mask(wbits);
    let (wa, wb) = (words(a, wbits), words(b, wbits));
    unwords(&wa.iter().zip(wb.iter()).map(|(x, y)| f(*x, *y) & m).collect::<Vec<_>>(), wbits)
}

pub fn add(a: &[u8], b: &[u8], wbits: u32) -> Vec<u8> {
    // wrapping add per word: computed on bytes with an explicit carry so that the model does not
    // lean on the same machine add
    let wb = (wbits / 8) as usize;
    let mut out = vec![0u8; a.len()];
    for w in 0..a.len() / wb {
        let mut carry = 0u16;
        for i in 0..wb {
            let s = a[w * wb + i] as u16 + b[w * wb + i] as u16 + carry;
            out[w * wb + i] = s as u8;
            carry = s >> 8;
        }
    }
    out
}
pub fn xor(a: &[u8], b: &[u8]) -> Vec<u8> {
    a.iter().zip(b).map(|(x, y)| x ^ y).collect()
}
pub fn and(a: &[u8], b: &[u8]) -> Vec<u8> {
    a.iter().zip(b).map(|(x, y)| x & y).collect()
}
pub fn or(a: &[u8], b: &[u8]) -> Vec<u8> {
    a.iter().zip(b).map(|(x, y)| x | y).collect()
}
pub fn not(a: &[u8]) -> Vec<u8> {
    a.iter().map(|x| !x).collect()
}
/// andnot(a, b) = !a & b
pub fn andnot(a: &[u8], b: &[u8]) -> Vec<u8> {
    a.iter().zip(b).map(|(x, y)| !x & y).collect()
}
pub fn rotr(a: &[u8], wbits: u32, n: u32) -> Vec<u8> {
    map1(a, wbits, |x| {
        let n = n % wbits;
        if n == 0 { x } else { (x >> n) | (x << (wbits - n)) }
    })
}
/// byte reversal within each word
pub fn bswap(a: &[u8], wbits: u32) -> Vec<u8> {
    let wb = (wbits / 8) as usize;
    let mut out = a.to_vec();
    for c in out.chunks_mut(wb) {
        c.reverse();
    }
    out
}
/// exchange adjacent n-bit groups (n = 1..64) inside every 128-bit lane
pub fn swapn(a: &[u8], n: u32) -> Vec<u8> {
    map1(a, 128, |x| {
        let mut out = 0u128;
        let groups = 128 / n;
        for g in 0..groups {
            let v = (x >> (g * n)) & mask(n);
            let dst = g ^ 1;
            out |= v << (dst * n);
        }
        out
    })
}
/// `shuffle_abcd` in the naming of the crate: result word i = input word named by the i-th digit
/// counted from the *right* (shuffle1230: out = [w3, w0, w1, w2]; 2301: [w2,w3,w0,w1]; 3012:
/// [w1,w2,w3,w0]). `group` = number of words the permutation acts on (4), applied to every
/// consecutive group of four words of size `wbits`.
pub fn shuffle4(a: &[u8], wbits: u32, which: u32) -> Vec<u8> {
    let w = words(a, wbits);
    let mut out = Vec::with_capacity(w.len());
    for g in w.chunks(4) {
        let p: [usize; 4] = match which {
            1230 => [3, 0, 1, 2],
            2301 => [2, 3, 0, 1],
            3012 => [1, 2, 3, 0],
            _ => panic!("bad shuffle"),
        };
        for i in 0..4 {
            out.push(g[p[i]]);
        }
    }
    unwords(&out, wbits)
}
/// per-word big-endian serialisation of an LE-packed vector
pub fn to_be(a: &[u8], wbits: u32) -> Vec<u8> {
    bswap(a, wbits)
}
/// 4x4 transpose of 128-bit lanes: rows a,b,c,d (64 bytes each) -> 4 outputs
pub fn transpose4(rows: [&[u8]; 4]) -> [Vec<u8>; 4] {
    core::array::from_fn(|j| {
        let mut v = Vec::with_capacity(64);
        for r in rows.iter() {
            v.extend_from_slice(&r[16 * j..16 * j + 16]);
        }
        v
    })
}

pub fn selftest() -> Result<(), String> {
    let a: Vec<u8> = (0..16).collect();
    if rotr(&a, 32, 8) != vec![1, 2, 3, 0, 5, 6, 7, 4, 9, 10, 11, 8, 13, 14, 15, 12] {
        return Err("vecops rotr32".into());
    }
    if rotr(&a, 128, 8) != vec![1, 2, 3, 4, 5, 6, 7, 8, 9, 10, 11, 12, 13, 14, 15, 0] {
        return Err("vecops rotr128".into());
    }
    if swapn(&a, 8) != vec![1, 0, 3, 2, 5, 4, 7, 6, 9, 8, 11, 10, 13, 12, 15, 14] {
        return Err("vecops swap8".into());
    }
    if swapn(&[0b0110_1001; 16], 1) != vec![0b1001_0110; 16] {
        return Err("vecops swap1".into());
    }
    if swapn(&a, 64) != vec![8, 9, 10, 11, 12, 13, 14, 15, 0, 1, 2, 3, 4, 5, 6, 7] {
        return Err("vecops swap64".into());
    }
    if add(&[0xff, 0xff, 0xff, 0xff, 1, 0, 0, 0], &[1, 0, 0, 0, 0xff, 0xff, 0xff, 0xff], 32) != vec![0; 8] {
        return Err("vecops add32".into());
    }
    if add(&[0xff, 0xff, 0xff, 0xff, 1, 0, 0, 0], &[1, 0, 0, 0, 0, 0, 0, 0], 64) != vec![0, 0, 0, 0, 2, 0, 0, 0] {
        return Err("vecops add64".into());
    }
    if shuffle4(&a, 32, 1230) != vec![12, 13, 14, 15, 0, 1, 2, 3, 4, 5, 6, 7, 8, 9, 10, 11] {
        return Err("vecops shuffle".into());
    }
    let _ = map2(&a, &a, 32, |x, y| x ^ y);
    Ok(())
}
