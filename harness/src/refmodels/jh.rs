//! JH-224/256/384/512 reference (JH42), written from the round-3 JH specification in its
//! nibble-oriented form: grouping, 42 x (S-box selected by a round-constant bit, linear
//! transformation L over GF(2^4), permutation P8 = phi . P' . pi), de-grouping. Round constants are
//! generated with R6 from the sqrt(2) constant; initial values are computed from the digest size.

const S: [[u8; 16]; 2] = [
    [9, 0, 4, 11, 13, 12, 3, 15, 1, 10, 2, 6, 7, 5, 8, 14],
    [3, 12, 6, 13, 5, 7, 1, 9, 15, 2, 0, 4, 11, 10, 14, 8],
];

/// (C, D) = L(A, B): MDS code over GF(2^4) with x^4 + x + 1; bit 0 of the spec is the MSB.
fn l(a: u8, b: u8) -> (u8, u8) {
    let ab = [(a >> 3) & 1, (a >> 2) & 1, (a >> 1) & 1, a & 1];
    let bb = [(b >> 3) & 1, (b >> 2) & 1, (b >> 1) & 1, b & 1];
    let d = [bb[0] ^ ab[1], bb[1] ^ ab[2], bb[2] ^ ab[3] ^ ab[0], bb[3] ^ ab[0]];
    let c = [ab[0] ^ d[1], ab[1] ^ d[2], ab[2] ^ d[3] ^ d[0], ab[3] ^ d[0]];
    let f = |v: [u8; 4]| (v[0] << 3) | (v[1] << 2) | (v[2] << 1) | v[3];
    (f(c), f(d))
}

fn perm(a: &[u8]) -> Vec<u8> {
    let n = a.len();
    // pi_d: swap positions 4i+2, 4i+3
    let mut b = a.to_vec();
    for i in 0..n / 4 {
        b[4 * i + 2] = a[4 * i + 3];
        b[4 * i + 3] = a[4 * i + 2];
    }
    // P'_d: even positions to the first half, odd positions to the second half
    let mut c = vec![0u8; n];
    for i in 0..n / 2 {
        c[i] = b[2 * i];
        c[i + n / 2] = b[2 * i + 1];
    }
    // phi_d: swap pairs in the second half
    let mut e = c.clone();
    for i in n / 4..n / 2 {
        e[2 * i] = c[2 * i + 1];
        e[2 * i + 1] = c[2 * i];
    }
    e
}

/// One round R_d on 2^d nibbles with the given round-constant bits.
fn round(a: &[u8], cbits: &[u8]) -> Vec<u8> {
    let n = a.len();
    let v: Vec<u8> = (0..n).map(|i| S[cbits[i] as usize][a[i] as usize]).collect();
    let mut w = vec![0u8; n];
    for i in 0..n / 2 {
        let (c, d) = l(v[2 * i], v[2 * i + 1]);
        w[2 * i] = c;
        w[2 * i + 1] = d;
    }
    perm(&w)
}

fn sqrt2_constant() -> Vec<u8> {
    // C0 = integer part of (sqrt(2) - 1) * 2^256, as 64 nibbles
    let hex = "6a09e667f3bcc908b2fb1366ea957d3e3adec17512775099da2f590b0667322a";
    hex.bytes().map(|c| (c as char).to_digit(16).unwrap() as u8).collect()
}

fn round_constant_bits() -> Vec<Vec<u8>> {
    let mut cs = Vec::new();
    let mut c = sqrt2_constant();
    for _ in 0..42 {
        let mut bits = Vec::with_capacity(256);
        for x in &c {
            bits.extend_from_slice(&[(x >> 3) & 1, (x >> 2) & 1, (x >> 1) & 1, x & 1]);
        }
        cs.push(bits);
        c = round(&c, &[0u8; 64]);
    }
    cs
}

pub struct JhTables {
    rc: Vec<Vec<u8>>,
}
impl JhTables {
    pub fn new() -> JhTables {
        JhTables { rc: round_constant_bits() }
    }
}

fn e8(t: &JhTables, h: &[u8; 128]) -> [u8; 128] {
    let bit = |i: usize| -> u8 { (h[i / 8] >> (7 - (i % 8))) & 1 };
    let mut q = vec![0u8; 256];
    for i in 0..128 {
        q[2 * i] = (bit(i) << 3) | (bit(i + 256) << 2) | (bit(i + 512) << 1) | bit(i + 768);
        q[2 * i + 1] = (bit(i + 128) << 3) | (bit(i + 384) << 2) | (bit(i + 640) << 1) | bit(i + 896);
    }
    for r in 0..42 {
        q = round(&q, &t.rc[r]);
    }
    let mut out = [0u8; 128];
    let mut set = |i: usize, b: u8| out[i / 8] |= b << (7 - (i % 8));
    for i in 0..128 {
        set(i, (q[2 * i] >> 3) & 1);
        set(i + 256, (q[2 * i] >> 2) & 1);
        set(i + 512, (q[2 * i] >> 1) & 1);
        set(i + 768, q[2 * i] & 1);
        set(i + 128, (q[2 * i + 1] >> 3) & 1);
        set(i + 384, (q[2 * i + 1] >> 2) & 1);
        set(i + 640, (q[2 * i + 1] >> 1) & 1);
        set(i + 896, q[2 * i + 1] & 1);
    }
    out
}

/// Compression function F8: H <- E8(H xor (M || 0)) xor (0 || M).
pub fn f8(t: &JhTables, h: &[u8; 128], m: &[u8]) -> [u8; 128] {
    assert_eq!(m.len(), 64);
    let mut x = *h;
    for i in 0..64 {
        x[i] ^= m[i];
    }
    let mut y = e8(t, &x);
    for i in 0..64 {
        y[64 + i] ^= m[i];
    }
    y
}

pub fn initial_value(t: &JhTables, bits: u32) -> [u8; 128] {
    let mut h = [0u8; 128];
    h[0] = (bits >> 8) as u8;
    h[1] = bits as u8;
    f8(t, &h, &[0u8; 64])
}

pub struct RefJh<'a> {
    t: &'a JhTables,
    bits: u32,
    h: [u8; 128],
    /// total message bytes absorbed (buffered bytes included)
    pub nbytes: u128,
    buf: Vec<u8>,
}

impl<'a> RefJh<'a> {
    pub fn new(t: &'a JhTables, bits: u32) -> RefJh<'a> {
        RefJh { t, bits, h: initial_value(t, bits), nbytes: 0, buf: Vec::new() }
    }
    pub fn update(&mut self, data: &[u8]) {
        self.nbytes += data.len() as u128;
        self.buf.extend_from_slice(data);
        let mut off = 0;
        while self.buf.len() - off >= 64 {
            self.h = f8(self.t, &self.h, &self.buf[off..off + 64]);
            off += 64;
        }
        self.buf.drain(..off);
    }
    /// C17: declare the total number of message bytes absorbed so far (chaining value unchanged).
    pub fn set_total_bytes(&mut self, n: u128) {
        self.nbytes = n;
    }
    pub fn finalize(mut self) -> Vec<u8> {
        let lbits: u128 = self.nbytes * 8;
        let mut pad = self.buf.clone();
        let aligned = pad.is_empty();
        pad.push(0x80);
        if aligned {
            // one padding block: 0x80, zeros, 128-bit length
            pad.resize(64 - 16, 0);
        } else {
            // fill the current block, then a whole extra block ending with the length
            while pad.len() % 64 != 0 {
                pad.push(0);
            }
            pad.resize(pad.len() + 64 - 16, 0);
        }
        pad.extend_from_slice(&lbits.to_be_bytes());
        assert_eq!(pad.len() % 64, 0);
        for b in pad.chunks(64) {
            self.h = f8(self.t, &self.h, b);
        }
        self.h[128 - (self.bits / 8) as usize..].to_vec()
    }
}

pub fn jh(t: &JhTables, bits: u32, msg: &[u8]) -> Vec<u8> {
    let mut h = RefJh::new(t, bits);
    h.update(msg);
    h.finalize()
}

pub fn selftest(t: &JhTables) -> Result<(), String> {
    use super::unhex as hex;
    if jh(t, 256, b"") != hex("46e64619c18bb0a92a5e87185a47eef83ca747b8fcc8e1412921357e326df434") {
        return Err("jh256(empty)".into());
    }
    if jh(t, 224, b"") != hex("2c99df889b019309051c60fecc2bd285a774940e43175b76b2626630") {
        return Err("jh224(empty)".into());
    }
    if jh(t, 512, b"") != hex("90ecf2f76f9d2c8017d979ad5ab96b87d58fc8fc4b83060f3f900774faa2c8fabe69c5f4ff1ec2b61d6b316941cedee117fb04b1f4c5bc1b919ae841c50eec4f") {
        return Err("jh512(empty)".into());
    }
    // H(0) of JH-256 as printed in the specification (first 32 bytes)
    let iv = initial_value(t, 256);
    if iv[..32] != hex("eb98a3412c20d3eb92cdbe7b9cb245c11c93519160d4c7fa260082d67e508a03")[..] {
        return Err("jh256 H(0)".into());
    }
    Ok(())
}
