//! C03: every dispatching algorithm gives the reference result on every back end and build
//! configuration. Public APIs run under the emulated host level of this worker (hook) or the
//! compile-time arm of this build; the public generic bodies `f8_impl::<M>` and `put_block::<M>`
//! are instantiated for every Machine.

use crate::engine::{guard, CaseInfo, Ctx, Fail};
use crate::gen::{bytes_n, HexBytes};
use crate::props::{chacha_guts, chacha_stream, hashes};
use crate::refmodels;
use proptest::prelude::*;
use serde::{Deserialize, Serialize};

#[derive(Clone, Debug, Serialize, Deserialize)]
pub struct DirectCase {
    /// 128 bytes: JH state / BLAKE chaining values
    pub state: HexBytes,
    /// 128 bytes: message block (JH uses the first 64)
    pub block: HexBytes,
    pub t: (u64, u64),
}

pub fn direct_strategy() -> BoxedStrategy<DirectCase> {
    (bytes_n(128), bytes_n(128), (any::<u64>(), prop_oneof![Just(0u64), any::<u64>()]))
        .prop_map(|(state, block, t)| DirectCase { state, block, t })
        .boxed()
}

#[cfg(not(feature = "cfg-nosimd"))]
mod inst {
    use super::*;
    use crate::props::vecs::{by128, by256, st128, st256};
    use digest::generic_array::GenericArray;
    use ppv_lite86::x86_64::{AVX, AVX2, SSE2, SSE41, SSSE3};
    use ppv_lite86::{vec128_storage, Machine};

    #[inline(always)]
    fn jh_f8<M: Machine>(m: M, c: &DirectCase) -> Vec<u8> {
        let mut st: [vec128_storage; 8] = core::array::from_fn(|i| st128(&c.state.0[16 * i..16 * i + 16]));
        // the block is handed over at an odd address on purpose (f8 reads it unaligned)
        let mut buf = vec![0u8; 65];
        buf[1..65].copy_from_slice(&c.block.0[..64]);
        jh_x86_64::compressor::f8_impl(m, &mut st, buf[1..].as_ptr());
        st.iter().flat_map(|s| by128(*s)).collect()
    }
    #[inline(always)]
    fn blake32<M: Machine>(m: M, c: &DirectCase) -> Vec<u8> {
        let mut comp = blake_hash::Compressor256::verif_from_h([st128(&c.state.0[..16]), st128(&c.state.0[16..32])]);
        blake_hash::u32x4::put_block(m, &mut comp, GenericArray::from_slice(&c.block.0[..64]), (c.t.0 as u32, c.t.1 as u32));
        let h = comp.verif_h();
        [by128(h[0]), by128(h[1])].concat()
    }
    #[inline(always)]
    fn blake64<M: Machine>(m: M, c: &DirectCase) -> Vec<u8> {
        let mut comp = blake_hash::Compressor512::verif_from_h([st256(&c.state.0[..32]), st256(&c.state.0[32..64])]);
        blake_hash::u64x4::put_block(m, &mut comp, GenericArray::from_slice(&c.block.0[..128]), c.t);
        let h = comp.verif_h();
        [by256(h[0]), by256(h[1])].concat()
    }
    macro_rules! per_machine {
        ($f:ident, $name:ident) => {
            pub mod $name {
                use super::*;
                #[target_feature(enable = "avx2")]
                pub unsafe fn avx2(c: &DirectCase) -> Vec<u8> { $f(AVX2::instance(), c) }
                #[target_feature(enable = "avx,sse4.1,ssse3")]
                pub unsafe fn avx(c: &DirectCase) -> Vec<u8> { $f(AVX::instance(), c) }
                #[target_feature(enable = "sse4.1,ssse3")]
                pub unsafe fn sse41(c: &DirectCase) -> Vec<u8> { $f(SSE41::instance(), c) }
                #[target_feature(enable = "ssse3")]
                pub unsafe fn ssse3(c: &DirectCase) -> Vec<u8> { $f(SSSE3::instance(), c) }
                pub unsafe fn sse2(c: &DirectCase) -> Vec<u8> { $f(SSE2::instance(), c) }
                pub fn all(c: &DirectCase) -> Vec<(&'static str, Result<Vec<u8>, String>)> {
                    unsafe {
                        vec![
                            ("sse2", guard(|| sse2(c))),
                            ("ssse3", guard(|| ssse3(c))),
                            ("sse41", guard(|| sse41(c))),
                            ("avx", guard(|| avx(c))),
                            ("avx2", guard(|| avx2(c))),
                        ]
                    }
                }
            }
        };
    }
    per_machine!(jh_f8, jh);
    per_machine!(blake32, b32);
    per_machine!(blake64, b64);
}

#[cfg(feature = "cfg-nosimd")]
mod inst {
    use super::*;
    use crate::props::vecs::{by128, by256, st128, st256};
    use digest::generic_array::GenericArray;
    use ppv_lite86::generic::GenericMachine;
    use ppv_lite86::{vec128_storage, Machine};
    macro_rules! one {
        ($name:ident, $body:expr) => {
            pub mod $name {
                use super::*;
                pub fn all(c: &DirectCase) -> Vec<(&'static str, Result<Vec<u8>, String>)> {
                    let m = unsafe { GenericMachine::instance() };
                    let f: fn(GenericMachine, &DirectCase) -> Vec<u8> = $body;
                    vec![("portable", guard(|| f(m, c)))]
                }
            }
        };
    }
    one!(jh, |m, c| {
        let mut st: [vec128_storage; 8] = core::array::from_fn(|i| st128(&c.state.0[16 * i..16 * i + 16]));
        let mut buf = vec![0u8; 65];
        buf[1..65].copy_from_slice(&c.block.0[..64]);
        jh_x86_64::compressor::f8_impl(m, &mut st, buf[1..].as_ptr());
        st.iter().flat_map(|s| by128(*s)).collect()
    });
    one!(b32, |m, c| {
        let mut comp = blake_hash::Compressor256::verif_from_h([st128(&c.state.0[..16]), st128(&c.state.0[16..32])]);
        blake_hash::u32x4::put_block(m, &mut comp, GenericArray::from_slice(&c.block.0[..64]), (c.t.0 as u32, c.t.1 as u32));
        let h = comp.verif_h();
        [by128(h[0]), by128(h[1])].concat()
    });
    one!(b64, |m, c| {
        let mut comp = blake_hash::Compressor512::verif_from_h([st256(&c.state.0[..32]), st256(&c.state.0[32..64])]);
        blake_hash::u64x4::put_block(m, &mut comp, GenericArray::from_slice(&c.block.0[..128]), c.t);
        let h = comp.verif_h();
        [by256(h[0]), by256(h[1])].concat()
    });
}

fn words_to_le(h: &[u64; 8], big: bool) -> Vec<u8> {
    let mut out = Vec::new();
    for x in h {
        if big { out.extend_from_slice(&x.to_le_bytes()) } else { out.extend_from_slice(&(*x as u32).to_le_bytes()) }
    }
    out
}

pub fn direct_check(c: &DirectCase, info: &mut CaseInfo) -> Result<(), Fail> {
    let m = refmodels::models();
    info.nontrivial = true;
    // JH F8
    let mut st = [0u8; 128];
    st.copy_from_slice(&c.state.0);
    let want = refmodels::jh::f8(&m.jh, &st, &c.block.0[..64]).to_vec();
    let mut n_backends = 0;
    for (be, r) in inst::jh::all(c) {
        n_backends += 1;
        match r {
            Err(p) => return Err(Fail::new(format!("C03:direct:jh-f8:{}:PANIC", be), p)),
            Ok(g) => {
                if g != want {
                    return Err(Fail::new(format!("C03:direct:jh-f8:{}:WRONG", be), format!("f8_impl::<{}> differs from the reference F8", be)));
                }
            }
        }
    }
    // BLAKE-256 compression
    let h32: [u64; 8] = core::array::from_fn(|i| u32::from_le_bytes(c.state.0[4 * i..4 * i + 4].try_into().unwrap()) as u64);
    let t32 = (c.t.0 as u32 as u128) | ((c.t.1 as u32 as u128) << 32);
    let want = words_to_le(&refmodels::blake::compress_raw(false, h32, &c.block.0[..64], t32), false);
    for (be, r) in inst::b32::all(c) {
        match r {
            Err(p) => return Err(Fail::new(format!("C03:direct:blake32-put_block:{}:PANIC", be), p)),
            Ok(g) => {
                if g != want {
                    return Err(Fail::new(format!("C03:direct:blake32-put_block:{}:WRONG", be), format!("u32x4::put_block::<{}> differs from the reference compression", be)));
                }
            }
        }
    }
    // BLAKE-512 compression
    let h64: [u64; 8] = core::array::from_fn(|i| u64::from_le_bytes(c.state.0[8 * i..8 * i + 8].try_into().unwrap()));
    let t64 = (c.t.0 as u128) | ((c.t.1 as u128) << 64);
    let want = words_to_le(&refmodels::blake::compress_raw(true, h64, &c.block.0[..128], t64), true);
    for (be, r) in inst::b64::all(c) {
        match r {
            Err(p) => return Err(Fail::new(format!("C03:direct:blake64-put_block:{}:PANIC", be), p)),
            Ok(g) => {
                if g != want {
                    return Err(Fail::new(format!("C03:direct:blake64-put_block:{}:WRONG", be), format!("u64x4::put_block::<{}> differs from the reference compression", be)));
                }
            }
        }
    }
    info.label(format!("executed on {} back ends", n_backends));
    Ok(())
}

fn relabel(r: Result<(), Fail>, prefix: &str) -> Result<(), Fail> {
    r.map_err(|f| Fail::new(format!("C03:{}:{}", prefix, f.sig), f.detail))
}

pub fn run_c03(ctx: &mut Ctx) {
    let lvl = ctx.cfg_label();
    // public APIs under this worker's level / build configuration
    for v in 0..7 {
        let n = ctx.count(12_000, 400_000);
        let l = lvl.clone();
        ctx.run(&format!("chacha/{}", refmodels::chacha::VARIANTS[v].name), n, chacha_stream::c01_strategy(v), move |c, i| {
            i.label(format!("configuration {}", l));
            relabel(chacha_stream::c01_check(c, i), "api")
        });
    }
    let n = ctx.count(40_000, 1_500_000);
    ctx.run("chacha-guts", n, chacha_guts::c14_strategy(), |c, i| relabel(chacha_guts::c14_check(c, i), "api"));
    for fam in [hashes::Family::Blake, hashes::Family::Jh] {
        let specs = hashes::by_family(fam);
        let names: Vec<String> = specs.iter().map(|s| s.name.clone()).collect();
        let blocks: Vec<usize> = specs.iter().map(|s| s.block).collect();
        let n = ctx.count(if fam == hashes::Family::Blake { 40_000 } else { 6_000 }, if fam == hashes::Family::Blake { 1_500_000 } else { 200_000 });
        let strat = (0..names.len(), any::<u64>(), any::<u16>(), crate::gen::pattern()).prop_map(move |(h, seed, l, pat)| hashes::ConfCase {
            hash: names[h].clone(),
            msg: crate::gen::Msg { seed, len: (l as usize) % (5 * blocks[h] + 1), pat },
            cuts: if seed % 3 == 0 { vec![(seed >> 8) as u16] } else { Vec::new() },
        });
        let s2 = specs.clone();
        ctx.run(&format!("digest/{:?}", fam), n, strat, move |c, i| relabel(hashes::conf_check("digest", &s2, c, i), "api"));
    }
    // generic bodies instantiated per Machine (all back ends of this build in one case)
    let n = ctx.count(15_000, 800_000);
    ctx.run("direct-instantiation", n, direct_strategy(), direct_check);
}

/// C20, second sentence: in the build configuration of this worker (a cargo feature choice) the
/// algorithms whose implementation the features select still give the reference results.
pub fn run_c20(ctx: &mut Ctx) {
    let cfg = ctx.cfg_label();
    for v in 0..7 {
        let n = ctx.count(6_000, 60_000);
        let l = cfg.clone();
        ctx.run(&format!("chacha/{}", refmodels::chacha::VARIANTS[v].name), n, chacha_stream::c01_strategy(v), move |c, i| {
            i.label(format!("feature configuration {}", l));
            relabel(chacha_stream::c01_check(c, i), "features")
        });
    }
    for fam in [hashes::Family::Blake, hashes::Family::Jh, hashes::Family::Groestl, hashes::Family::Skein] {
        let specs = if fam == hashes::Family::Skein { hashes::c08_hashes().into_iter().filter(|h| h.family == fam).collect() } else { hashes::by_family(fam) };
        let names: Vec<String> = specs.iter().map(|s| s.name.clone()).collect();
        let blocks: Vec<usize> = specs.iter().map(|s| s.block).collect();
        let n = ctx.count(5_000, 60_000);
        let strat = (0..names.len(), any::<u64>(), any::<u16>(), crate::gen::pattern()).prop_map(move |(h, seed, l, pat)| hashes::ConfCase {
            hash: names[h].clone(),
            msg: crate::gen::Msg { seed, len: (l as usize) % (5 * blocks[h] + 1), pat },
            cuts: if seed % 3 == 0 { vec![(seed >> 8) as u16] } else { Vec::new() },
        });
        let s2 = specs.clone();
        ctx.run(&format!("digest/{:?}", fam), n, strat, move |c, i| relabel(hashes::conf_check("digest", &s2, c, i), "features"));
    }
    let n = ctx.count(30_000, 300_000);
    ctx.run("threefish", n, crate::props::threefish::tf_strategy(), |c, i| {
        relabel(crate::props::threefish::c09_check(c, i).and_then(|_| crate::props::threefish::c10_check(c, i)), "features")
    });
}
