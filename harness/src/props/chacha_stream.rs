//! C01, C02, C11: the seven ChaCha stream cipher types through the `cipher` traits, against the
//! reference keystream and an absolute-position model.

use crate::engine::{guard, splitmix, CaseInfo, Ctx, Fail};
use crate::gen::{bytes_n, HexBytes, W128};
use crate::refmodels::chacha::{Layout, RefStream, Variant, VARIANTS};
use c2_chacha::{ChaCha12, ChaCha20, ChaCha8, Ietf, XChaCha12, XChaCha20, XChaCha8};
use cipher::generic_array::GenericArray;
use cipher::{NewCipher, StreamCipher, StreamCipherSeek};
use proptest::prelude::*;
use serde::{Deserialize, Serialize};

#[derive(Clone, Copy, Debug, Serialize, Deserialize, PartialEq, Eq)]
pub enum SeekTy {
    U8,
    U16,
    U32,
    U64,
    U128,
    Usize,
    I32,
}

pub const SEEK_TYS: [SeekTy; 7] = [SeekTy::U8, SeekTy::U16, SeekTy::U32, SeekTy::U64, SeekTy::U128, SeekTy::Usize, SeekTy::I32];

impl SeekTy {
    /// inclusive value range of the type
    pub fn range(self) -> (i128, i128) {
        match self {
            SeekTy::U8 => (0, u8::MAX as i128),
            SeekTy::U16 => (0, u16::MAX as i128),
            SeekTy::U32 => (0, u32::MAX as i128),
            SeekTy::U64 | SeekTy::Usize => (0, u64::MAX as i128),
            SeekTy::U128 => (0, i128::MAX), // values above i128::MAX are handled separately
            SeekTy::I32 => (i32::MIN as i128, i32::MAX as i128),
        }
    }
    pub fn fits(self, v: u128) -> bool {
        match self {
            SeekTy::U128 => true,
            _ => v <= self.range().1 as u128,
        }
    }
}

/// Object-safe view of a cipher instance.
pub trait DynCipher {
    fn try_apply(&mut self, data: &mut [u8]) -> Result<(), ()>;
    /// `v` must be inside the range of `ty` (negative only for I32)
    fn try_seek(&mut self, ty: SeekTy, v: i128, big: u128) -> Result<(), ()>;
    fn try_pos(&self, ty: SeekTy) -> Result<u128, ()>;
}

impl<C: StreamCipher + StreamCipherSeek> DynCipher for C {
    fn try_apply(&mut self, data: &mut [u8]) -> Result<(), ()> {
        self.try_apply_keystream(data).map_err(|_| ())
    }
    fn try_seek(&mut self, ty: SeekTy, v: i128, big: u128) -> Result<(), ()> {
        match ty {
            SeekTy::U8 => StreamCipherSeek::try_seek(self, v as u8),
            SeekTy::U16 => StreamCipherSeek::try_seek(self, v as u16),
            SeekTy::U32 => StreamCipherSeek::try_seek(self, v as u32),
            SeekTy::U64 => StreamCipherSeek::try_seek(self, v as u64),
            SeekTy::U128 => StreamCipherSeek::try_seek(self, big),
            SeekTy::Usize => StreamCipherSeek::try_seek(self, v as usize),
            SeekTy::I32 => StreamCipherSeek::try_seek(self, v as i32),
        }
        .map_err(|_| ())
    }
    fn try_pos(&self, ty: SeekTy) -> Result<u128, ()> {
        match ty {
            SeekTy::U8 => self.try_current_pos::<u8>().map(|x| x as u128),
            SeekTy::U16 => self.try_current_pos::<u16>().map(|x| x as u128),
            SeekTy::U32 => self.try_current_pos::<u32>().map(|x| x as u128),
            SeekTy::U64 => self.try_current_pos::<u64>().map(|x| x as u128),
            SeekTy::U128 => self.try_current_pos::<u128>(),
            SeekTy::Usize => self.try_current_pos::<usize>().map(|x| x as u128),
            SeekTy::I32 => self.try_current_pos::<i32>().map(|x| x as u128),
        }
        .map_err(|_| ())
    }
}

/// Key and nonce are handed to the constructor at addresses whose alignment (0..7 within an 8-byte aligned buffer) is a
/// function of the key bytes: callers keep keys inside larger buffers, and the byte loads of the portable back end
/// must not care. (C16 places them itself and uses `make_cipher_at`.)
pub fn make_cipher(variant: usize, key: &[u8], nonce: &[u8]) -> Box<dyn DynCipher> {
    let mut kb = [0u64; 6];
    let mut nb = [0u64; 5];
    let ko = (key[0] & 7) as usize;
    let no = (key[1] & 7) as usize;
    let kbytes: &mut [u8] = unsafe { std::slice::from_raw_parts_mut(kb.as_mut_ptr() as *mut u8, 48) };
    let nbytes: &mut [u8] = unsafe { std::slice::from_raw_parts_mut(nb.as_mut_ptr() as *mut u8, 40) };
    kbytes[ko..ko + key.len()].copy_from_slice(key);
    nbytes[no..no + nonce.len()].copy_from_slice(nonce);
    make_cipher_at(variant, &kbytes[ko..ko + key.len()], &nbytes[no..no + nonce.len()])
}

pub fn make_cipher_at(variant: usize, key: &[u8], nonce: &[u8]) -> Box<dyn DynCipher> {
    let k = GenericArray::from_slice(key);
    match variant {
        0 => Box::new(ChaCha8::new(k, GenericArray::from_slice(nonce))),
        1 => Box::new(ChaCha12::new(k, GenericArray::from_slice(nonce))),
        2 => Box::new(ChaCha20::new(k, GenericArray::from_slice(nonce))),
        3 => Box::new(Ietf::new(k, GenericArray::from_slice(nonce))),
        4 => Box::new(XChaCha8::new(k, GenericArray::from_slice(nonce))),
        5 => Box::new(XChaCha12::new(k, GenericArray::from_slice(nonce))),
        6 => Box::new(XChaCha20::new(k, GenericArray::from_slice(nonce))),
        _ => panic!("bad variant"),
    }
}

pub fn key32(k: &HexBytes) -> [u8; 32] {
    let mut a = [0u8; 32];
    a.copy_from_slice(&k.0);
    a
}

// ------------------------------------------------------------------------------------------------
// C01
// ------------------------------------------------------------------------------------------------

#[derive(Clone, Debug, Serialize, Deserialize)]
pub struct C01Case {
    pub variant: usize,
    pub key: HexBytes,
    pub nonce: HexBytes,
    /// bytes consumed from position `pos - pre` before the checked request (varies buffer state)
    pub pre: u16,
    pub pos: W128,
    pub len: u16,
    pub data_seed: u64,
    /// offset of the data inside the canary buffer
    pub off: u8,
}

const LENS: [u16; 19] = [0, 1, 2, 63, 64, 65, 127, 128, 129, 255, 256, 257, 319, 320, 511, 512, 513, 1023, 1024];

pub fn len_mix() -> BoxedStrategy<u16> {
    prop_oneof![
        4 => 0u16..1100,
        3 => (0usize..LENS.len()).prop_map(|i| LENS[i]),
        2 => 0u16..130,
    ]
    .boxed()
}

/// Byte positions: small, uniform, and the boundary families the code branches on.
pub fn pos_mix(variant: Variant) -> BoxedStrategy<u128> {
    let limit = variant.stream_len();
    if variant.layout == Layout::Ietf {
        prop_oneof![
            3 => (0u128..2048),
            3 => (0u128..(1u128 << 38)),
            2 => (0u128..4096).prop_map(|d| (1u128 << 38) - d),
            1 => (1u32..38, 0u128..200).prop_map(|(k, d)| ((1u128 << k) + d).saturating_sub(100)),
        ]
        .prop_map(move |p| p.min(limit))
        .boxed()
    } else {
        prop_oneof![
            3 => (0u128..2048),
            3 => any::<u64>().prop_map(|x| x as u128),
            // low counter word carry: block 2^32 is byte 2^38; also k * 2^38
            3 => (1u128..8, 0u128..1200).prop_map(|(k, d)| (k << 38).wrapping_add(d).wrapping_sub(600)),
            2 => (0u128..4096).prop_map(|d| (1u128 << 64) - 1 - d),
            1 => (1u32..64, 0u128..200).prop_map(|(k, d)| ((1u128 << k) + d).saturating_sub(100)),
        ]
        .boxed()
    }
}

pub fn c01_strategy(variant: usize) -> BoxedStrategy<C01Case> {
    let v = VARIANTS[variant];
    (bytes_n(32), bytes_n(v.nonce_len()), 0u16..200, pos_mix(v), len_mix(), any::<u64>(), 0u8..64)
        .prop_map(move |(key, nonce, pre, pos, len, data_seed, off)| {
            // keep the request inside the keystream (exhaustion belongs to C11)
            let limit = v.stream_len().min(1u128 << 64);
            let pos = pos.min(limit - 1);
            let len = (len as u128).min(limit - pos) as u16;
            let pre = (pre as u128).min(pos) as u16;
            C01Case { variant, key, nonce, pre, pos: W128(pos), len, data_seed, off }
        })
        .boxed()
}

pub fn c01_check(c: &C01Case, info: &mut CaseInfo) -> Result<(), Fail> {
    let v = VARIANTS[c.variant];
    let key = key32(&c.key);
    let rs = RefStream::new(v, &key, &c.nonce.0);
    let pos = c.pos.0;
    let n = c.len as usize;
    let want_ks = rs.bytes(pos, n);
    let mut s = c.data_seed;
    let total = 64 + n + 64;
    let mut buf: Vec<u8> = (0..total + 64).map(|_| splitmix(&mut s) as u8).collect();
    let off = c.off as usize;
    let before = buf.clone();
    let pre = c.pre as usize;
    let start = pos - pre as u128;
    let r = guard(|| {
        let mut ci = make_cipher(c.variant, &key, &c.nonce.0);
        // seek with the narrowest of u64/u128 that holds the value
        if start > 0 || pre > 0 {
            if start <= u64::MAX as u128 {
                ci.try_seek(SeekTy::U64, start as i128, start).map_err(|_| "seek failed")?;
            } else {
                return Err("position not seekable");
            }
        }
        if pre > 0 {
            let mut scratch = vec![0u8; pre];
            ci.try_apply(&mut scratch).map_err(|_| "pre-apply failed")?;
        }
        ci.try_apply(&mut buf[off + 64..off + 64 + n]).map_err(|_| "apply failed")?;
        Ok::<(), &'static str>(())
    });
    let name = v.name;
    info.label(name);
    info.label_if(n >= 256, "len>=256(wide path)");
    info.label_if(n > 0 && n % 64 != 0, "partial tail block");
    info.label_if(pre % 64 != 0, "starts inside a buffered block");
    info.label_if(pos / 64 < (1 << 32) && (pos + n as u128) / 64 >= (1 << 32), "crosses block 2^32");
    info.label_if(pos >= (1u128 << 38), "pos>=2^38");
    info.nontrivial = n >= 1;
    match r {
        Err(p) => return Err(Fail::new(format!("C01:{}:PANIC", name), format!("panic: {}", p))),
        Ok(Err(e)) => return Err(Fail::new(format!("C01:{}:ERR", name), format!("in-range request rejected: {}", e))),
        Ok(Ok(())) => {}
    }
    for i in 0..buf.len() {
        let inside = i >= off + 64 && i < off + 64 + n;
        let want = if inside { before[i] ^ want_ks[i - off - 64] } else { before[i] };
        if buf[i] != want {
            let kind = if inside { "WRONG" } else { "OUTSIDE" };
            return Err(Fail::new(
                format!("C01:{}:{}", name, kind),
                format!("byte {} of the request at pos {:#x}: got {:02x} want {:02x} (inside={})", i as i64 - off as i64 - 64, pos, buf[i], want, inside),
            ));
        }
    }
    Ok(())
}

pub fn run_c01(ctx: &mut Ctx) {
    for v in 0..7 {
        let n = ctx.count(150_000, 2_500_000);
        ctx.run(&format!("keystream/{}", VARIANTS[v].name), n, c01_strategy(v), c01_check);
    }
    ctx.required_classes.push("crosses block 2^32".into());
    ctx.required_classes.push("len>=256(wide path)".into());
    ctx.required_classes.push("starts inside a buffered block".into());
}

// ------------------------------------------------------------------------------------------------
// C02 / C11: histories
// ------------------------------------------------------------------------------------------------

#[derive(Clone, Debug, Serialize, Deserialize)]
pub enum Target {
    /// absolute value (may be out of range for the cipher)
    Abs(W128),
    /// relative to the model position
    Rel(i32),
    /// block boundary near the model position plus an offset
    Block(i8, i8),
    /// distance before the end of the keystream (negative = beyond the end)
    FromEnd(i32),
    /// distance before byte k * 2^38 (block k * 2^32: carry out of the low counter word)
    Carry(u8, i32),
    /// far before the end of the keystream (up to a few MiB): a following "to the end" request is large
    FromEndBig(u32),
}

#[derive(Clone, Debug, Serialize, Deserialize)]
pub enum LenSpec {
    Fixed(u16),
    /// exactly the bytes left in the current block, plus delta
    ToBlockEnd(i8),
    /// exactly the bytes left in the keystream, plus delta (only when that is a small number)
    ToStreamEnd(i8),
    /// a long request: 1 KiB + 8 * n bytes (up to ~0.5 MiB)
    Big(u16),
}

#[derive(Clone, Debug, Serialize, Deserialize)]
pub enum Op {
    Seek(SeekTy, Target),
    /// negative i32 seek (must be rejected)
    SeekNeg(i32),
    Apply(LenSpec),
    ApplyTwice(u16),
    Pos(SeekTy),
}

#[derive(Clone, Debug, Serialize, Deserialize)]
pub struct History {
    pub variant: usize,
    pub key: HexBytes,
    pub nonce: HexBytes,
    pub data_seed: u64,
    pub ops: Vec<Op>,
}

fn seek_ty() -> BoxedStrategy<SeekTy> {
    prop_oneof![
        1 => Just(SeekTy::U8), 1 => Just(SeekTy::U16), 2 => Just(SeekTy::U32), 4 => Just(SeekTy::U64),
        3 => Just(SeekTy::U128), 2 => Just(SeekTy::Usize), 1 => Just(SeekTy::I32)
    ]
    .boxed()
}

fn target(v: Variant, boundary_heavy: bool) -> BoxedStrategy<Target> {
    let abs = pos_mix(v).prop_map(|p| Target::Abs(W128(p)));
    let beyond = if v.layout == Layout::Ietf {
        prop_oneof![
            (0u128..2000).prop_map(|d| Target::Abs(W128((1u128 << 38) + d))),
            any::<u64>().prop_map(|x| Target::Abs(W128((x as u128) | (1u128 << 38)))),
            any::<u128>().prop_map(|x| Target::Abs(W128(x | (1u128 << 40)))),
        ]
        .boxed()
    } else {
        prop_oneof![
            (0u128..2000).prop_map(|d| Target::Abs(W128((1u128 << 64) + d))),
            any::<u128>().prop_map(|x| Target::Abs(W128(x | (1u128 << 64)))),
        ]
        .boxed()
    };
    if boundary_heavy {
        prop_oneof![
            30 => (-700i32..700).prop_map(Target::FromEnd),
            if v.layout == Layout::Ietf { 1 } else { 0 } => prop_oneof![(1_000_000u32..3_400_000), (1u32..50).prop_map(|k| k * 65_536 + 7)].prop_map(Target::FromEndBig),
            if v.layout == Layout::Ietf { 0 } else { 24 } => (0u8..8, -200i32..1200).prop_map(|(k, d)| Target::Carry(k, d)),
            12 => (-300i32..300).prop_map(Target::Rel),
            12 => (-3i8..4, -1i8..64).prop_map(|(b, o)| Target::Block(b, o)),
            12 => abs,
            12 => beyond,
            6 => Just(Target::Abs(W128(0))),
        ]
        .boxed()
    } else {
        prop_oneof![
            4 => (-300i32..300).prop_map(Target::Rel),
            4 => (-3i8..4, -1i8..64).prop_map(|(b, o)| Target::Block(b, o)),
            3 => abs,
            1 => (-700i32..700).prop_map(Target::FromEnd),
            if v.layout == Layout::Ietf { 0 } else { 1 } => (0u8..8, -200i32..1200).prop_map(|(k, d)| Target::Carry(k, d)),
            1 => beyond,
            2 => (0u128..64).prop_map(|p| Target::Abs(W128(p))),
        ]
        .boxed()
    }
}

fn lenspec(boundary_heavy: bool) -> BoxedStrategy<LenSpec> {
    if boundary_heavy {
        prop_oneof![
            16 => len_mix().prop_map(LenSpec::Fixed),
            8 => (-2i8..3).prop_map(LenSpec::ToBlockEnd),
            16 => (-2i8..3).prop_map(LenSpec::ToStreamEnd),
            1 => prop_oneof![3 => 0u16..2048, 1 => any::<u16>()].prop_map(LenSpec::Big),
        ]
        .boxed()
    } else {
        prop_oneof![
            24 => len_mix().prop_map(LenSpec::Fixed),
            12 => (-2i8..3).prop_map(LenSpec::ToBlockEnd),
            4 => (-2i8..3).prop_map(LenSpec::ToStreamEnd),
            1 => prop_oneof![3 => 0u16..2048, 1 => any::<u16>()].prop_map(LenSpec::Big),
        ]
        .boxed()
    }
}

fn op(v: Variant, boundary_heavy: bool) -> BoxedStrategy<Op> {
    prop_oneof![
        6 => (seek_ty(), target(v, boundary_heavy)).prop_map(|(t, g)| Op::Seek(t, g)),
        1 => (i32::MIN..0).prop_map(Op::SeekNeg),
        8 => lenspec(boundary_heavy).prop_map(Op::Apply),
        1 => (0u16..400).prop_map(Op::ApplyTwice),
        2 => seek_ty().prop_map(Op::Pos),
    ]
    .boxed()
}

pub fn history_strategy(variant: usize, boundary_heavy: bool, max_ops: usize) -> BoxedStrategy<History> {
    let v = VARIANTS[variant];
    // nonce word 0 patterns matter for the IETF carry out of the 32-bit counter
    let nonce = if v.layout == Layout::Ietf {
        prop_oneof![
            2 => bytes_n(12),
            1 => bytes_n(8).prop_map(|t| { let mut n = vec![0xffu8; 4]; n.extend_from_slice(&t.0); HexBytes(n) }),
            1 => bytes_n(8).prop_map(|t| { let mut n = vec![0u8; 4]; n.extend_from_slice(&t.0); HexBytes(n) }),
        ]
        .boxed()
    } else {
        bytes_n(v.nonce_len())
    };
    (bytes_n(32), nonce, any::<u64>(), prop::collection::vec(op(v, boundary_heavy), 0..=max_ops))
        .prop_map(move |(key, nonce, data_seed, ops)| History { variant, key, nonce, data_seed, ops })
        .boxed()
}

fn clamp_u128(x: i128) -> u128 {
    if x < 0 { 0 } else { x as u128 }
}

/// Interpret a history against the cipher and the absolute-position model.
/// `prop` is "C02" or "C11" (signature prefix).
pub fn history_check(prop: &str, h: &History, info: &mut CaseInfo) -> Result<(), Fail> {
    let v = VARIANTS[h.variant];
    let name = v.name;
    let key = key32(&h.key);
    let rs = RefStream::new(v, &key, &h.nonce.0);
    let limit = v.stream_len();
    // positions a seek must accept (C11: expressible in 64 bits; IETF: up to and including 2^38)
    let seek_limit: u128 = if v.layout == Layout::Ietf { 1u128 << 38 } else { u64::MAX as u128 };
    let mut pos: u128 = 0;
    let mut ds = h.data_seed;
    let mut ci = match guard(|| make_cipher(h.variant, &key, &h.nonce.0)) {
        Ok(c) => c,
        Err(p) => return Err(Fail::new(format!("{}:{}:new:PANIC", prop, name), p)),
    };
    // classification state
    let mut after_midblock_seek = false;
    let mut last_apply_ended_midblock = false;
    let mut had_reject = false;
    let mut had_end_reject = false;
    let mut final_block_read = false;
    let fail = |kind: &str, step: usize, detail: String| -> Fail {
        Fail::new(format!("{}:{}:{}", prop, name, kind), format!("step {}: {}", step, detail))
    };
    for (step, op) in h.ops.iter().enumerate() {
        match op {
            Op::Seek(ty, tgt) => {
                let t: i128 = match tgt {
                    Target::Abs(p) => {
                        if p.0 > i128::MAX as u128 { -1 } else { p.0 as i128 }
                    }
                    Target::Rel(d) => pos as i128 + *d as i128,
                    Target::Block(b, o) => ((pos / 64) as i128 + *b as i128) * 64 + *o as i128,
                    Target::FromEnd(d) => limit.min(1u128 << 64) as i128 - *d as i128,
                    Target::Carry(k, d) => (((*k as i128) % 8 + 1) << 38) - *d as i128,
                    Target::FromEndBig(d) => limit.min(1u128 << 64) as i128 - *d as i128,
                };
                // huge u128 values (above i128::MAX) are only expressible as U128
                let (big, tv): (u128, i128) = match tgt {
                    Target::Abs(p) if p.0 > i128::MAX as u128 => (p.0, i128::MAX),
                    _ => (clamp_u128(t), t.max(0)),
                };
                // clamp the value into the type's range so that the call is well-typed
                let (lo, hi) = ty.range();
                let val = tv.clamp(lo, hi);
                let bigv = if *ty == SeekTy::U128 { big } else { val as u128 };
                let target_pos: u128 = bigv;
                let r = guard(|| ci.try_seek(*ty, val, bigv));
                let must_accept = target_pos <= seek_limit;
                let may_accept = target_pos <= limit;
                match r {
                    Err(p) => return Err(fail("seek:PANIC", step, format!("try_seek::<{:?}>({:#x}) panicked: {}", ty, target_pos, p))),
                    Ok(Ok(())) => {
                        if !may_accept {
                            return Err(fail("seek:ACCEPTED-PAST-END", step, format!("try_seek::<{:?}>({:#x}) returned Ok beyond the keystream", ty, target_pos)));
                        }
                        if target_pos < pos {
                            info.label("backwards seek");
                        }
                        if final_block_read {
                            info.label("op after final block read");
                        }
                        pos = target_pos;
                        after_midblock_seek = pos % 64 != 0;
                        last_apply_ended_midblock = false;
                        info.label_if(pos % 64 != 0 && pos < 64, "mid-block seek into block 0");
                    }
                    Ok(Err(())) => {
                        if must_accept {
                            return Err(fail("seek:REJECTED-IN-RANGE", step, format!("try_seek::<{:?}>({:#x}) returned Err", ty, target_pos)));
                        }
                        had_reject = true;
                        had_end_reject = true;
                        info.label("seek past end rejected");
                    }
                }
            }
            Op::SeekNeg(vn) => {
                let r = guard(|| ci.try_seek(SeekTy::I32, *vn as i128, 0));
                match r {
                    Err(p) => return Err(fail("seek:PANIC", step, format!("try_seek::<i32>({}) panicked: {}", vn, p))),
                    Ok(Ok(())) => return Err(fail("seek:NEGATIVE-ACCEPTED", step, format!("try_seek::<i32>({}) returned Ok", vn))),
                    Ok(Err(())) => {
                        had_reject = true;
                        info.label("negative seek rejected");
                    }
                }
            }
            Op::Apply(ls) => {
                let n: usize = match ls {
                    LenSpec::Fixed(n) => *n as usize,
                    LenSpec::ToBlockEnd(d) => ((64 - (pos % 64) as i64) % 64 + *d as i64).max(0) as usize,
                    LenSpec::Big(k) => 1024 + 8 * (*k as usize),
                    LenSpec::ToStreamEnd(d) => {
                        let left = limit - pos.min(limit);
                        // up to ~3.5 MiB a request really runs to the end of the keystream (+- d)
                        if left <= 3_600_000 { (left as i64 + *d as i64).max(0) as usize } else { (700 + *d as i64) as usize }
                    }
                };
                let mut data: Vec<u8> = (0..n + 32).map(|_| splitmix(&mut ds) as u8).collect();
                let before = data.clone();
                let fits = pos + n as u128 <= limit;
                let r = guard(|| ci.try_apply(&mut data[16..16 + n]));
                match r {
                    Err(p) => return Err(fail("apply:PANIC", step, format!("apply of {} bytes at {:#x} panicked: {}", n, pos, p))),
                    Ok(Ok(())) => {
                        if !fits {
                            return Err(fail("apply:ACCEPTED-PAST-END", step, format!("apply of {} bytes at {:#x} returned Ok but the keystream ends at {:#x}", n, pos, limit)));
                        }
                        let ks = rs.bytes(pos, n);
                        for i in 0..data.len() {
                            let inside = i >= 16 && i < 16 + n;
                            let want = if inside { before[i] ^ ks[i - 16] } else { before[i] };
                            if data[i] != want {
                                return Err(fail(
                                    if inside { "apply:WRONG" } else { "apply:OUTSIDE" },
                                    step,
                                    format!("apply of {} bytes at {:#x}: byte {} got {:02x} want {:02x}", n, pos, i as i64 - 16, data[i], want),
                                ));
                            }
                        }
                        if n > 0 {
                            info.label_if(after_midblock_seek, "mid-block seek then apply");
                            info.label_if(last_apply_ended_midblock, "apply after apply that ended mid-block");
                            info.label_if(had_reject, "successful read after a rejected request");
                            info.label_if(had_end_reject, "successful read after an end-of-keystream rejection");
                            info.label_if(final_block_read, "op after final block read");
                            info.label_if(pos + n as u128 == limit, "request ends exactly at the limit");
                            info.label_if(pos / 64 < (1 << 32) && (pos + n as u128) / 64 >= (1 << 32) && v.layout != Layout::Ietf, "crosses block 2^32");
                            info.label_if(n >= 256, "wide path");
                            info.label_if(n > (1 << 20), "request longer than 1 MiB");
                            info.label_if(n >= 4096, "request of >= 4 KiB");
                            after_midblock_seek = false;
                            pos += n as u128;
                            last_apply_ended_midblock = pos % 64 != 0;
                            if v.layout == Layout::Ietf && pos > limit - 64 {
                                final_block_read = true;
                            }
                        }
                    }
                    Ok(Err(())) => {
                        if fits {
                            return Err(fail("apply:REJECTED-IN-RANGE", step, format!("apply of {} bytes at {:#x} returned Err", n, pos)));
                        }
                        if data != before {
                            return Err(fail("apply:ERR-MODIFIED-DATA", step, format!("rejected apply of {} bytes at {:#x} changed the data", n, pos)));
                        }
                        had_reject = true;
                        had_end_reject = true;
                        info.label("apply past end rejected");
                    }
                }
            }
            Op::ApplyTwice(n) => {
                let n = *n as usize;
                if pos + n as u128 > limit || pos > seek_limit {
                    continue;
                }
                let mut data: Vec<u8> = (0..n).map(|_| splitmix(&mut ds) as u8).collect();
                let before = data.clone();
                let p0 = pos;
                let r = guard(|| {
                    ci.try_apply(&mut data).map_err(|_| "first apply")?;
                    ci.try_seek(SeekTy::U64, p0 as i128, p0).map_err(|_| "seek back")?;
                    ci.try_apply(&mut data).map_err(|_| "second apply")?;
                    Ok::<(), &'static str>(())
                });
                match r {
                    Err(p) => return Err(fail("twice:PANIC", step, format!("apply/seek/apply of {} bytes at {:#x} panicked: {}", n, pos, p))),
                    Ok(Err(e)) => return Err(fail("twice:ERR", step, format!("{} failed for {} bytes at {:#x}", e, n, pos))),
                    Ok(Ok(())) => {
                        if data != before {
                            return Err(fail("twice:NOT-RESTORED", step, format!("applying {} bytes twice at {:#x} did not restore the data", n, pos)));
                        }
                        if n > 0 {
                            info.label("apply twice restores");
                            after_midblock_seek = false;
                            pos += n as u128;
                            last_apply_ended_midblock = pos % 64 != 0;
                        }
                    }
                }
            }
            Op::Pos(ty) => {
                let r = guard(|| ci.try_pos(*ty));
                let fits = ty.fits(pos);
                match r {
                    Err(p) => return Err(fail("pos:PANIC", step, format!("try_current_pos::<{:?}>() at {:#x} panicked: {}", ty, pos, p))),
                    Ok(Ok(got)) => {
                        if !fits || got != pos {
                            return Err(fail("pos:WRONG", step, format!("try_current_pos::<{:?}>() = {:#x}, absolute position is {:#x}", ty, got, pos)));
                        }
                        info.label("current_pos checked");
                    }
                    Ok(Err(())) => {
                        if fits {
                            return Err(fail("pos:ERR", step, format!("try_current_pos::<{:?}>() = Err at position {:#x}", ty, pos)));
                        }
                        info.label("current_pos overflow reported");
                    }
                }
            }
        }
    }
    let l = &info.labels;
    let has = |s: &str| l.iter().any(|x| x == s);
    info.nontrivial = if prop == "C11" {
        has("successful read after an end-of-keystream rejection") || has("request ends exactly at the limit") || has("crosses block 2^32")
    } else {
        has("mid-block seek then apply") || has("apply after apply that ended mid-block") || has("backwards seek") || has("op after final block read")
    };
    info.label(name);
    Ok(())
}

pub fn run_c02(ctx: &mut Ctx) {
    for v in 0..7 {
        let n = ctx.count(40_000, 700_000);
        ctx.run(&format!("history/{}", VARIANTS[v].name), n, history_strategy(v, false, 24), |h, i| history_check("C02", h, i));
    }
    for c in ["mid-block seek then apply", "apply after apply that ended mid-block", "backwards seek", "op after final block read",
        "mid-block seek into block 0", "current_pos checked", "apply twice restores"] {
        ctx.required_classes.push(c.into());
    }
}

pub fn run_c11(ctx: &mut Ctx) {
    for v in 0..7 {
        let q = if VARIANTS[v].layout == Layout::Ietf { 150_000 } else { 25_000 };
        let t = if VARIANTS[v].layout == Layout::Ietf { 1_500_000 } else { 300_000 };
        let n = ctx.count(q, t);
        ctx.run(&format!("exhaustion/{}", VARIANTS[v].name), n, history_strategy(v, true, 16), |h, i| history_check("C11", h, i));
    }
    for c in ["successful read after an end-of-keystream rejection", "request ends exactly at the limit", "apply past end rejected",
        "seek past end rejected", "crosses block 2^32"] {
        ctx.required_classes.push(c.into());
    }
}
