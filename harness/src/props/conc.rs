//! C18: (a) concurrent first use from a cold process - randomised stress with generated thread
//! counts, call mixes and arrival jitter, one fresh child process per case; (b) interleaving of
//! independent instances - deterministic model-based histories over mixed instance sets, in one
//! thread and distributed over owner threads.

use crate::engine::{guard, splitmix, CaseInfo, Ctx, Fail};
use crate::gen;
use crate::props::{chacha_stream, hashes};
use crate::refmodels;
use proptest::prelude::*;
use serde::{Deserialize, Serialize};
use std::sync::{Arc, Barrier};

#[derive(Clone, Debug, Serialize, Deserialize, PartialEq, Eq)]
pub struct JobSpec {
    /// hash name, "cipher:<0..6>", "threefish:<bits>", "guts"
    pub algo: String,
    pub seed: u64,
    pub len: usize,
}

#[derive(Clone, Debug, Serialize, Deserialize)]
pub struct ThreadSpec {
    pub spin: u32,
    pub jobs: Vec<JobSpec>,
}

#[derive(Clone, Debug, Serialize, Deserialize)]
pub struct ConcCase {
    pub threads: Vec<ThreadSpec>,
}

pub fn algos() -> Vec<String> {
    let mut v: Vec<String> = hashes::c18_hashes().iter().map(|h| h.name.clone()).collect();
    for i in 0..7 {
        v.push(format!("cipher:{}", i));
    }
    for b in [256, 512, 1024] {
        v.push(format!("threefish:{}", b));
    }
    v.push("guts".into());
    v
}

/// Run one job through the implementation.
pub fn compute_job(j: &JobSpec) -> Vec<u8> {
    let data = gen::expand(j.seed, j.len, 0);
    let key = gen::expand(j.seed ^ 0x77, 160, 0);
    if let Some(v) = j.algo.strip_prefix("cipher:") {
        let v: usize = v.parse().unwrap();
        let nl = refmodels::chacha::VARIANTS[v].nonce_len();
        let mut c = chacha_stream::make_cipher(v, &key[..32], &key[32..32 + nl]);
        let mut d = data;
        // two pieces so that buffered, wide and tail paths all run
        let cut = d.len() / 3;
        let (a, b) = d.split_at_mut(cut);
        c.try_apply(a).unwrap();
        c.try_apply(b).unwrap();
        return d;
    }
    if let Some(b) = j.algo.strip_prefix("threefish:") {
        use cipher::generic_array::GenericArray;
        use cipher::{BlockEncrypt, NewBlockCipher};
        let bits: usize = b.parse().unwrap();
        let n = bits / 8;
        let mut out = Vec::new();
        let mut blk = vec![0u8; n];
        for (i, x) in data.iter().enumerate() {
            blk[i % n] ^= *x;
        }
        for round in 0..(1 + j.len / 64) {
            blk[0] ^= round as u8;
            match bits {
                256 => threefish_cipher::Threefish256::new(GenericArray::from_slice(&key[..n])).encrypt_block(GenericArray::from_mut_slice(&mut blk)),
                512 => threefish_cipher::Threefish512::new(GenericArray::from_slice(&key[..n])).encrypt_block(GenericArray::from_mut_slice(&mut blk)),
                _ => threefish_cipher::Threefish1024::new(GenericArray::from_slice(&key[..n])).encrypt_block(GenericArray::from_mut_slice(&mut blk)),
            }
            out.extend_from_slice(&blk[..8]);
        }
        return out;
    }
    if j.algo == "guts" {
        let mut k = [0u8; 32];
        k.copy_from_slice(&key[..32]);
        let mut st = c2_chacha::guts::ChaCha::new(&k, &key[32..44]);
        st.set_stream_param(0, j.seed);
        let mut out = Vec::new();
        for _ in 0..(1 + j.len / 320) {
            let mut b4 = [0u8; 256];
            st.refill4(10, &mut b4);
            let mut b1 = [0u8; 64];
            st.refill(10, &mut b1);
            out.extend_from_slice(&b4);
            out.extend_from_slice(&b1);
        }
        return out;
    }
    let specs = hashes::c18_hashes();
    let spec = specs.iter().find(|s| s.name == j.algo).expect("HARNESS: algo");
    let mut h = (spec.make)();
    // fed in two pieces so that buffering is exercised
    let cut = data.len() / 2;
    h.update(&data[..cut]);
    h.update(&data[cut..]);
    h.finalize_box()
}

/// Reference result for a job, where one exists cheaply.
pub fn reference_job(j: &JobSpec) -> Option<Vec<u8>> {
    if j.len > 8192 {
        return None;
    }
    let data = gen::expand(j.seed, j.len, 0);
    let key = gen::expand(j.seed ^ 0x77, 160, 0);
    if let Some(v) = j.algo.strip_prefix("cipher:") {
        let v: usize = v.parse().unwrap();
        let var = refmodels::chacha::VARIANTS[v];
        let mut k = [0u8; 32];
        k.copy_from_slice(&key[..32]);
        let rs = refmodels::chacha::RefStream::new(var, &k, &key[32..32 + var.nonce_len()]);
        let ks = rs.bytes(0, data.len());
        return Some(data.iter().zip(ks.iter()).map(|(a, b)| a ^ b).collect());
    }
    if j.algo.starts_with("threefish:") || j.algo == "guts" {
        return None; // covered by C09 / C14; here the sequential result is the oracle
    }
    let specs = hashes::c18_hashes();
    let spec = specs.iter().find(|s| s.name == j.algo)?;
    Some(hashes::ref_digest(spec, &data))
}

/// Executed in the freshly started child process: all threads are released together.
pub fn child_main(case_path: &str) -> i32 {
    let txt = std::fs::read_to_string(case_path).expect("case file");
    let case: ConcCase = serde_json::from_str(&txt).expect("case json");
    let n = case.threads.len();
    let barrier = Arc::new(Barrier::new(n));
    let mut handles = Vec::new();
    for t in case.threads.iter().cloned() {
        let b = barrier.clone();
        handles.push(std::thread::spawn(move || {
            b.wait();
            let mut x = 0u64;
            for i in 0..t.spin {
                x = x.wrapping_mul(6364136223846793005).wrapping_add(i as u64);
                std::hint::black_box(x);
            }
            t.jobs.iter().map(|j| guard(|| compute_job(j))).collect::<Vec<_>>()
        }));
    }
    let mut out: Vec<Vec<String>> = Vec::new();
    for h in handles {
        match h.join() {
            Ok(res) => out.push(res.into_iter().map(|r| match r { Ok(b) => refmodels::hex(&b), Err(p) => format!("PANIC:{}", p) }).collect()),
            Err(_) => out.push(vec!["THREAD-PANIC".into()]),
        }
    }
    println!("{}", serde_json::to_string(&out).unwrap());
    0
}

fn job_strategy(algos: Vec<String>, max_len: usize) -> BoxedStrategy<JobSpec> {
    let n = algos.len();
    (0..n, any::<u64>(), 0..=max_len).prop_map(move |(a, seed, len)| JobSpec { algo: algos[a].clone(), seed, len }).boxed()
}

/// Algorithms that plausibly share process-wide state: same family (Skein: same state size).
fn group(a: &str) -> String {
    if a.starts_with("Skein") { a.split('<').next().unwrap().to_string() }
    else if a.starts_with("Groestl") { "Groestl".into() } else if a.starts_with("Blake") { "Blake".into() } else if a.starts_with("Jh") { "Jh".into() }
    else { a.split(':').next().unwrap().to_string() }
}

fn siblings(al: &[String], a: &str) -> Vec<String> {
    let g = group(a);
    al.iter().filter(|x| group(x) == g).cloned().collect()
}

/// cold-start cases: many threads, short jobs, several threads share the first-call target - the same algorithm or
/// (half of the sharing threads) a sibling of it: another variant of the same family / another output size of the
/// same Skein state size, which is what state keyed too coarsely (per family, per state size) needs
pub fn cold_strategy() -> BoxedStrategy<ConcCase> {
    let al = algos();
    let n = al.len();
    (2usize..=48, 0..n, prop::collection::vec((0u32..3000, 0..n, any::<u64>(), 0usize..700, prop::collection::vec(job_strategy(al.clone(), 700), 0..3), prop::bool::weighted(0.7),
        prop_oneof![1 => Just(0u16), 1 => 1u16..=u16::MAX]), 48), prop::bool::weighted(0.5))
        .prop_map(move |(nthreads, shared, specs, with_siblings)| {
            let sibs = siblings(&al, &al[shared]);
            let threads = specs.into_iter().take(nthreads).map(|(spin, own, seed, len, more, use_shared, sib)| {
                let algo = if !use_shared { al[own].clone() } else if with_siblings && sib != 0 { sibs[gen::idx(sib, sibs.len())].clone() } else { al[shared].clone() };
                let first = JobSpec { algo, seed, len };
                let mut jobs = vec![first];
                jobs.extend(more);
                ThreadSpec { spin, jobs }
            }).collect();
            ConcCase { threads }
        })
        .boxed()
}

/// churn cases: 4..16 threads, each running a few hundred tiny jobs that alternate between 2..3 sibling algorithms
/// (construction, a short input, finalisation): sustained contention on whatever the constructors share
pub fn churn_strategy() -> BoxedStrategy<ConcCase> {
    let al = algos();
    let n = al.len();
    (4usize..=16, 0..n, prop::collection::vec(any::<u16>(), 2..=3), 50usize..=400, any::<u64>(), 0usize..=64)
        .prop_map(move |(nthreads, a, picks, iters, seed, len)| {
            let sibs = siblings(&al, &al[a]);
            // at most six distinct jobs per case (the parent computes each expected value once)
            let mut pool: Vec<JobSpec> = Vec::new();
            for (k, p) in picks.iter().enumerate() {
                let algo = if k == 0 { al[a].clone() } else { sibs[gen::idx(*p, sibs.len())].clone() };
                for v in 0..2u64 {
                    pool.push(JobSpec { algo: algo.clone(), seed: seed ^ (v * 0x9e37 + k as u64), len: if v == 0 { len } else { len / 3 } });
                }
            }
            let threads = (0..nthreads).map(|t| {
                let mut x = seed ^ (t as u64).wrapping_mul(0x9e3779b97f4a7c15);
                let jobs = (0..iters).map(|_| pool[(splitmix(&mut x) % pool.len() as u64) as usize].clone()).collect();
                ThreadSpec { spin: 0, jobs }
            }).collect();
            ConcCase { threads }
        })
        .boxed()
}

/// sustained cases: 8..32 threads each pushing megabytes through the same algorithm
pub fn sustained_strategy() -> BoxedStrategy<ConcCase> {
    let al = algos();
    let n = al.len();
    (8usize..=32, 0..n, any::<u64>(), 1usize..=4, prop::bool::weighted(0.5))
        .prop_map(move |(nthreads, a, seed, mib, same_input)| {
            let threads = (0..nthreads).map(|i| ThreadSpec {
                spin: 0,
                jobs: vec![JobSpec { algo: al[a].clone(), seed: if same_input { seed } else { seed.wrapping_add(i as u64) }, len: (mib << 19) + 13 * i }],
            }).collect();
            ConcCase { threads }
        })
        .boxed()
}

pub fn conc_check(c: &ConcCase, repeats: u32, info: &mut CaseInfo) -> Result<(), Fail> {
    // expected: the single-threaded, one-at-a-time results (and the reference model where cheap)
    let mut expected: Vec<Vec<String>> = Vec::new();
    let mut cache: std::collections::HashMap<String, String> = std::collections::HashMap::new();
    for t in &c.threads {
        let mut row = Vec::new();
        for j in &t.jobs {
            let key = format!("{}|{}|{}", j.algo, j.seed, j.len);
            if let Some(v) = cache.get(&key) {
                row.push(v.clone());
                continue;
            }
            let seq = guard(|| compute_job(j)).map_err(|p| Fail::new(format!("C18:sequential:{}:PANIC", j.algo), p))?;
            if let Some(r) = reference_job(j) {
                if r != seq {
                    return Err(Fail::new(format!("C18:sequential:{}:WRONG", j.algo), "single-threaded result differs from the reference model".to_string()));
                }
            }
            let hx = refmodels::hex(&seq);
            cache.insert(key, hx.clone());
            row.push(hx);
        }
        expected.push(row);
    }
    // how many threads share their first-call target?
    let mut firsts: std::collections::HashMap<&str, usize> = std::collections::HashMap::new();
    for t in &c.threads {
        if let Some(j) = t.jobs.first() {
            *firsts.entry(j.algo.as_str()).or_insert(0) += 1;
        }
    }
    let shared = firsts.values().copied().max().unwrap_or(0);
    info.nontrivial = shared >= 2;
    info.label_if(shared >= 2, ">=2 threads share a first-call target");
    info.label_if(shared >= 8, ">=8 threads share a first-call target");
    // threads whose first calls go to different members of one group (family / Skein state size)
    let mut groups: std::collections::HashMap<String, std::collections::HashSet<&str>> = std::collections::HashMap::new();
    for t in &c.threads {
        if let Some(j) = t.jobs.first() {
            groups.entry(group(&j.algo)).or_default().insert(j.algo.as_str());
        }
    }
    info.label_if(groups.values().any(|g| g.len() >= 2), "first calls into different siblings of one family");
    info.label_if(groups.iter().any(|(k, g)| k.starts_with("Skein") && g.len() >= 2), "first calls into different output sizes of one Skein state size");
    let jobs_max = c.threads.iter().map(|t| t.jobs.len()).max().unwrap_or(0);
    info.label_if(jobs_max >= 50, "churn (>= 50 short jobs per thread)");
    if jobs_max >= 50 {
        info.nontrivial = true;
    }
    info.label(format!("threads {}", match c.threads.len() { 0..=3 => "2-3", 4..=15 => "4-15", 16..=31 => "16-31", _ => "32+" }));
    let total: usize = c.threads.iter().flat_map(|t| t.jobs.iter()).map(|j| j.len).sum();
    info.label_if(total > (4 << 20), "sustained (> 4 MiB in flight)");
    let family = |a: &str| -> String {
        if a.starts_with("Groestl") { "Groestl".into() } else if a.starts_with("Blake") { "Blake".into() } else if a.starts_with("Jh") { "Jh".into() }
        else if a.starts_with("Skein") { "Skein".into() } else { a.split(':').next().unwrap().to_string() }
    };
    if let Some((a, _)) = firsts.iter().max_by_key(|(_, v)| **v) {
        info.label(format!("shared first call: {}", family(a)));
    }
    let exe = std::env::current_exe().map_err(|e| Fail::new("HARNESS:exe", e.to_string()))?;
    let dir = std::env::temp_dir();
    let path = dir.join(format!("vh-c18-{}-{:x}.json", std::process::id(), crate::engine::fnv1a(serde_json::to_string(c).unwrap().as_bytes())));
    std::fs::write(&path, serde_json::to_vec(c).unwrap()).map_err(|e| Fail::new("HARNESS:tmp", e.to_string()))?;
    let mut result = Ok(());
    for rep in 0..repeats {
        let out = std::process::Command::new(&exe).arg("c18-child").arg(&path).output().map_err(|e| Fail::new("HARNESS:spawn", e.to_string()));
        let out = match out {
            Ok(o) => o,
            Err(e) => {
                result = Err(e);
                break;
            }
        };
        if !out.status.success() {
            result = Err(Fail::new("C18:concurrent:CHILD-DIED", format!("child process ended with {:?} (repetition {})", out.status, rep)));
            break;
        }
        let got: Vec<Vec<String>> = match serde_json::from_slice(&out.stdout) {
            Ok(g) => g,
            Err(e) => {
                result = Err(Fail::new("HARNESS:child-output", e.to_string()));
                break;
            }
        };
        if got != expected {
            // locate the first difference
            let mut what = String::new();
            'o: for (ti, (g, e)) in got.iter().zip(expected.iter()).enumerate() {
                for (ji, (gj, ej)) in g.iter().zip(e.iter()).enumerate() {
                    if gj != ej {
                        let j = &c.threads[ti].jobs[ji];
                        let kind = if gj.starts_with("PANIC") { "PANIC" } else { "WRONG" };
                        what = format!("{}|thread {} job {} ({} len {}): {}.. != single-threaded {}..", kind, ti, ji, j.algo, j.len, &gj[..gj.len().min(32)], &ej[..ej.len().min(32)]);
                        result = Err(Fail::new(format!("C18:concurrent:{}:{}", family(&j.algo), kind), format!("{} (repetition {}, {} threads)", what, rep, c.threads.len())));
                        break 'o;
                    }
                }
            }
            if what.is_empty() {
                result = Err(Fail::new("C18:concurrent:SHAPE", "child returned a different number of results".to_string()));
            }
            break;
        }
    }
    let _ = std::fs::remove_file(&path);
    result
}

// ------------------------------------------------------------------------------------------------
// (b) interleaving of independent instances
// ------------------------------------------------------------------------------------------------

#[derive(Clone, Debug, Serialize, Deserialize)]
pub struct InterCase {
    /// algorithm per instance (hash names or "cipher:<v>")
    pub instances: Vec<String>,
    pub seed: u64,
    /// (instance selector, piece)
    pub ops: Vec<(u16, hashes::Piece)>,
    /// distribute the instances over this many owner threads (1 = single thread)
    pub owners: u8,
    /// all instances are keyed with the same key and nonce bytes (state that is keyed by the wrong
    /// things - a cache, a memo table - only shows when independent instances share their inputs)
    #[serde(default)]
    pub same_key: bool,
    /// 0 = keys as `same_key` says; 1..=4 = all instances share key and nonce bytes except for nonce bytes 0..8 (1),
    /// 8..16 (2), 16..24 (3) or one byte anywhere in key/nonce (4), which differ per instance: state keyed by PART of
    /// the inputs (a memo of the XChaCha subkey derivation keyed without the nonce head, say) needs partly equal inputs
    #[serde(default)]
    pub relation: u8,
}

pub fn inter_strategy() -> BoxedStrategy<InterCase> {
    let mut al: Vec<String> = hashes::c18_hashes().iter().map(|h| h.name.clone()).collect();
    for i in 0..7 {
        al.push(format!("cipher:{}", i));
    }
    let n = al.len();
    let ciphers: Vec<String> = (0..7).map(|i| format!("cipher:{}", i)).collect();
    (prop::collection::vec(0..n, 2..=6), any::<u64>(), prop::collection::vec((any::<u16>(), hashes::piece()), 1..40), prop_oneof![3 => Just(1u8), 1 => 2u8..=4], 0u8..10, prop::bool::weighted(0.4),
        prop_oneof![6 => Just(0u8), 1 => Just(1u8), 1 => Just(2u8), 1 => Just(3u8), 1 => Just(4u8)])
        .prop_map(move |(ix, seed, ops, owners, sel, same_key, relation)| {
            // 40 %: all instances of the same type (state shared between equal types would show);
            // 20 %: ciphers only (with `same_key`: several cipher types on one key and nonce)
            let instances = ix.iter().map(|i| {
                if sel < 4 { al[ix[0]].clone() } else if sel < 6 { ciphers[*i % 7].clone() } else { al[*i].clone() }
            }).collect();
            InterCase { instances, seed, ops, owners, same_key, relation }
        })
        .boxed()
}

enum Live {
    Hash(Box<dyn hashes::H>, hashes::HashSpec),
    Cipher(Box<dyn chacha_stream::DynCipher + Send>, usize),
}

fn make_send_cipher(v: usize, key: &[u8], nonce: &[u8]) -> Box<dyn chacha_stream::DynCipher + Send> {
    use c2_chacha::{ChaCha12, ChaCha20, ChaCha8, Ietf, XChaCha12, XChaCha20, XChaCha8};
    use cipher::generic_array::GenericArray;
    use cipher::NewCipher;
    let k = GenericArray::from_slice(key);
    match v {
        0 => Box::new(ChaCha8::new(k, GenericArray::from_slice(nonce))),
        1 => Box::new(ChaCha12::new(k, GenericArray::from_slice(nonce))),
        2 => Box::new(ChaCha20::new(k, GenericArray::from_slice(nonce))),
        3 => Box::new(Ietf::new(k, GenericArray::from_slice(nonce))),
        4 => Box::new(XChaCha8::new(k, GenericArray::from_slice(nonce))),
        5 => Box::new(XChaCha12::new(k, GenericArray::from_slice(nonce))),
        _ => Box::new(XChaCha20::new(k, GenericArray::from_slice(nonce))),
    }
}

pub fn inter_check(c: &InterCase, info: &mut CaseInfo) -> Result<(), Fail> {
    let specs = hashes::c18_hashes();
    let n = c.instances.len();
    // per instance: the pieces it receives, in order (a pure function of the case)
    let mut fills = vec![0usize; n];
    let mut stream = c.seed;
    let mut sched: Vec<(usize, Vec<u8>)> = Vec::new();
    let block_of = |name: &str| -> usize { specs.iter().find(|s| s.name == name).map(|s| s.block).unwrap_or(64) };
    for (sel, p) in &c.ops {
        let k = gen::idx(*sel, n);
        let b = block_of(&c.instances[k]);
        let len = hashes::piece_len(p, fills[k] % b, b);
        let data = gen::expand(splitmix(&mut stream), len, 0);
        fills[k] += len;
        sched.push((k, data));
    }
    // expected per instance: one-at-a-time result over the concatenation (hash: one-shot digest +
    // reference for short inputs; cipher: reference keystream)
    let keys: Vec<Vec<u8>> = (0..n).map(|i| {
        let own = gen::expand(c.seed ^ (i as u64 + 1), 64, 0);
        if c.relation == 0 {
            return if c.same_key { gen::expand(c.seed ^ 1, 64, 0) } else { own };
        }
        // bytes 0..32 key, 32.. nonce (8, 12 or 24 bytes used)
        let mut k = gen::expand(c.seed ^ 1, 64, 0);
        match c.relation {
            1 => k[32..40].copy_from_slice(&own[..8]),
            2 => k[40..48].copy_from_slice(&own[..8]),
            3 => k[48..56].copy_from_slice(&own[..8]),
            _ => {
                let at = ((c.seed >> 8) as usize + 7 * i) % 56;
                k[at] ^= (i as u8).wrapping_add(1);
            }
        }
        k
    }).collect();
    let mut model: Vec<Vec<u8>> = vec![Vec::new(); n];
    for (k, d) in &sched {
        model[*k].extend_from_slice(d);
    }
    let mut expected: Vec<Vec<u8>> = Vec::new();
    for i in 0..n {
        if let Some(v) = c.instances[i].strip_prefix("cipher:") {
            let v: usize = v.parse().unwrap();
            let var = refmodels::chacha::VARIANTS[v];
            let mut k = [0u8; 32];
            k.copy_from_slice(&keys[i][..32]);
            let rs = refmodels::chacha::RefStream::new(var, &k, &keys[i][32..32 + var.nonce_len()]);
            let ks = rs.bytes(0, model[i].len());
            expected.push(model[i].iter().zip(ks.iter()).map(|(a, b)| a ^ b).collect());
        } else {
            let spec = specs.iter().find(|s| s.name == c.instances[i]).unwrap();
            let one = guard(|| { let mut h = (spec.make)(); h.update(&model[i]); h.finalize_box() }).map_err(|p| Fail::new("C18:interleave:oneshot:PANIC", p))?;
            if model[i].len() <= 2048 && hashes::ref_digest(spec, &model[i]) != one {
                return Err(Fail::new(format!("C18:interleave:{}:ONESHOT-WRONG", spec.name), "one-shot digest differs from the reference".to_string()));
            }
            expected.push(one);
        }
    }
    // run: create all instances first, then interleave
    let mk = |i: usize| -> Live {
        if let Some(v) = c.instances[i].strip_prefix("cipher:") {
            let v: usize = v.parse().unwrap();
            let nl = refmodels::chacha::VARIANTS[v].nonce_len();
            Live::Cipher(make_send_cipher(v, &keys[i][..32], &keys[i][32..32 + nl]), v)
        } else {
            let spec = specs.iter().find(|s| s.name == c.instances[i]).unwrap().clone();
            Live::Hash((spec.make)(), spec)
        }
    };
    let owners = (c.owners.max(1) as usize).min(n);
    let run_owner = move |mut insts: Vec<(usize, Live)>, ops: Vec<(usize, Vec<u8>)>| -> Vec<(usize, Vec<u8>)> {
        let mut outs: Vec<(usize, Vec<u8>)> = insts.iter().map(|(i, _)| (*i, Vec::new())).collect();
        for (k, d) in ops {
            let pos = insts.iter().position(|(i, _)| *i == k).unwrap();
            match &mut insts[pos].1 {
                Live::Hash(h, _) => h.update(&d),
                Live::Cipher(ci, _) => {
                    let mut buf = d.clone();
                    ci.try_apply(&mut buf).unwrap();
                    outs[pos].1.extend_from_slice(&buf);
                }
            }
        }
        for (pos, (_, l)) in insts.into_iter().enumerate() {
            if let Live::Hash(h, _) = l {
                outs[pos].1 = h.finalize_box();
            }
        }
        outs
    };
    let got: Result<Vec<(usize, Vec<u8>)>, String> = guard(|| {
        if owners <= 1 {
            let insts: Vec<(usize, Live)> = (0..n).map(|i| (i, mk(i))).collect();
            run_owner(insts, sched.clone())
        } else {
            // instance i is owned by thread i % owners; each thread performs its instances' ops in order
            let mut handles = Vec::new();
            for o in 0..owners {
                let insts: Vec<(usize, Live)> = (0..n).filter(|i| i % owners == o).map(|i| (i, mk(i))).collect();
                let ops: Vec<(usize, Vec<u8>)> = sched.iter().filter(|(k, _)| k % owners == o).cloned().collect();
                let f = run_owner.clone();
                handles.push(std::thread::spawn(move || f(insts, ops)));
            }
            let mut all = Vec::new();
            for h in handles {
                all.extend(h.join().expect("owner thread panicked"));
            }
            all
        }
    });
    let kinds: std::collections::HashSet<&String> = c.instances.iter().collect();
    info.label_if(kinds.len() == 1, "all instances of the same type");
    info.label_if(kinds.len() > 1, "instances of different types");
    info.label_if(owners > 1, "instances distributed over owner threads");
    info.label_if(c.relation != 0 && c.instances.iter().filter(|a| a.starts_with("cipher:")).count() >= 2, "cipher instances with partly equal key/nonce bytes");
    info.label_if(c.relation == 0 && c.same_key && c.instances.iter().filter(|a| a.starts_with("cipher:")).count() >= 2, "several cipher instances share key and nonce bytes");
    let touched = model.iter().filter(|m| !m.is_empty()).count();
    info.nontrivial = touched >= 2;
    info.label_if(touched >= 2, ">=2 instances interleaved");
    match got {
        Err(p) => Err(Fail::new("C18:interleave:PANIC", p)),
        Ok(outs) => {
            for (i, out) in outs {
                if out != expected[i] {
                    return Err(Fail::new(
                        format!("C18:interleave:{}:WRONG", c.instances[i].split('<').next().unwrap_or("?")),
                        format!("instance {} ({}) differs from its own one-at-a-time result after interleaving with {:?}", i, c.instances[i], c.instances),
                    ));
                }
            }
            Ok(())
        }
    }
}

pub fn run_c18(ctx: &mut Ctx) {
    let reps = if ctx.replay.is_some() { 40 } else { 1 };
    ctx.max_shrink = 80;
    let n = ctx.count(1_500, 15_000);
    ctx.run("concurrent-cold-start", n, cold_strategy(), move |c, i| conc_check(c, reps, i));
    let n = ctx.count(48, 800);
    ctx.run("concurrent-sustained", n, sustained_strategy(), move |c, i| conc_check(c, reps, i));
    let n = ctx.count(250, 4_000);
    ctx.run("concurrent-sustained-churn", n, churn_strategy(), move |c, i| conc_check(c, reps, i));
    ctx.max_shrink = 20_000;
    let n = ctx.count(20_000, 600_000);
    ctx.run("interleaved-instances", n, inter_strategy(), inter_check);
    for c in [">=2 threads share a first-call target", ">=8 threads share a first-call target", "sustained (> 4 MiB in flight)",
        "shared first call: Groestl", "shared first call: Blake", "shared first call: Jh", "shared first call: cipher",
        "all instances of the same type", "instances distributed over owner threads", "first calls into different siblings of one family",
        "first calls into different output sizes of one Skein state size", "churn (>= 50 short jobs per thread)",
        "cipher instances with partly equal key/nonce bytes"] {
        ctx.required_classes.push(c.into());
    }
}
