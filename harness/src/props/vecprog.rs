//! C12/C13 (chained form): a generated straight-line program over four 512-bit registers, executed
//! with the 512-bit vector types of a back end and with the scalar byte model. Chaining lets an
//! error that only shows in a later operation (stale upper lanes, a result that is right only when
//! read back immediately) propagate into the final registers.

use crate::engine::{guard, CaseInfo, Fail};
use crate::gen::HexBytes;
use crate::props::vecs::{by128, by512, st128, st512};
use crate::refmodels::vecops as V;
use ppv_lite86::*;
use proptest::prelude::*;
use serde::{Deserialize, Serialize};

#[derive(Clone, Debug, Serialize, Deserialize, PartialEq, Eq)]
pub enum VOp {
    /// kind: 0 add, 1 xor, 2 and, 3 or, 4 andnot, 5 add_assign, 6 xor_assign; ty: 0 u32x4x4, 1 u64x2x4, 2 u128x4
    Bin { kind: u8, ty: u8, dst: u8, a: u8, b: u8 },
    /// kind: 0 not, 1..=8 rotate 7/8/11/12/16/20/24/25, 9 rotate32, 10 bswap, 11..=13 shuffle_lane_words 1230/2301/3012,
    /// 14..=20 swap1..swap64
    Un { kind: u8, ty: u8, dst: u8, a: u8 },
    /// dst.lane[to] = a.lane[from] through extract/insert of a whole 128-bit lane
    Lane { ty: u8, dst: u8, a: u8, from: u8, to: u8 },
    /// (r0,r1,r2,r3) = transpose4(r0,r1,r2,r3) as u32x4x4
    Transpose,
    /// dst = from_lanes(to_lanes(a)) with the lanes rotated by `rot`
    Relane { ty: u8, dst: u8, a: u8, rot: u8 },
}

#[derive(Clone, Debug, Serialize, Deserialize)]
pub struct VProg {
    pub regs: Vec<HexBytes>,
    pub ops: Vec<VOp>,
}

const ROTS: [u32; 8] = [7, 8, 11, 12, 16, 20, 24, 25];
const SWAPS: [u32; 7] = [1, 2, 4, 8, 16, 32, 64];

/// Make an op well-formed for its type (total decoding: every byte string is a valid program).
pub fn normalise(op: VOp) -> VOp {
    match op {
        VOp::Bin { kind, ty, dst, a, b } => {
            let ty = ty % 3;
            let mut kind = kind % 7;
            if ty == 2 && (kind == 0 || kind == 5) {
                kind = 1; // no arithmetic on 128-bit words
            }
            VOp::Bin { kind, ty, dst: dst % 4, a: a % 4, b: b % 4 }
        }
        VOp::Un { kind, ty, dst, a } => {
            let ty = ty % 3;
            let mut kind = kind % 21;
            let ok = match kind {
                0..=8 => true,
                9 => ty >= 1,
                10 => ty <= 1,
                11..=13 => ty == 0,
                _ => ty == 2,
            };
            if !ok {
                kind = 1 + kind % 8;
            }
            VOp::Un { kind, ty, dst: dst % 4, a: a % 4 }
        }
        VOp::Lane { ty, dst, a, from, to } => VOp::Lane { ty: ty % 3, dst: dst % 4, a: a % 4, from: from % 4, to: to % 4 },
        VOp::Transpose => VOp::Transpose,
        VOp::Relane { ty, dst, a, rot } => VOp::Relane { ty: ty % 3, dst: dst % 4, a: a % 4, rot: rot % 4 },
    }
}

pub fn vprog_strategy(max_ops: usize) -> BoxedStrategy<VProg> {
    let op = prop_oneof![
        5 => (any::<u8>(), any::<u8>(), any::<u8>(), any::<u8>(), any::<u8>()).prop_map(|(kind, ty, dst, a, b)| normalise(VOp::Bin { kind, ty, dst, a, b })),
        8 => (any::<u8>(), any::<u8>(), any::<u8>(), any::<u8>()).prop_map(|(kind, ty, dst, a)| normalise(VOp::Un { kind, ty, dst, a })),
        2 => (any::<u8>(), any::<u8>(), any::<u8>(), any::<u8>(), any::<u8>()).prop_map(|(ty, dst, a, from, to)| normalise(VOp::Lane { ty, dst, a, from, to })),
        1 => Just(VOp::Transpose),
        1 => (any::<u8>(), any::<u8>(), any::<u8>(), any::<u8>()).prop_map(|(ty, dst, a, rot)| normalise(VOp::Relane { ty, dst, a, rot })),
    ];
    (prop::collection::vec(crate::gen::bytes_n(64), 4), prop::collection::vec(op, 1..=max_ops))
        .prop_map(|(regs, ops)| VProg { regs, ops })
        .boxed()
}

fn wbits(ty: u8) -> u32 {
    match ty {
        0 => 32,
        1 => 64,
        _ => 128,
    }
}

/// Scalar model of the program.
pub fn model(p: &VProg) -> Vec<Vec<u8>> {
    let mut r: Vec<Vec<u8>> = p.regs.iter().map(|x| x.0.clone()).collect();
    for op in &p.ops {
        match normalise(op.clone()) {
            VOp::Bin { kind, ty, dst, a, b } => {
                let (x, y) = (r[a as usize].clone(), r[b as usize].clone());
                r[dst as usize] = match kind {
                    0 | 5 => V::add(&x, &y, wbits(ty)),
                    1 | 6 => V::xor(&x, &y),
                    2 => V::and(&x, &y),
                    3 => V::or(&x, &y),
                    _ => V::andnot(&x, &y),
                };
            }
            VOp::Un { kind, ty, dst, a } => {
                let x = r[a as usize].clone();
                r[dst as usize] = match kind {
                    0 => V::not(&x),
                    1..=8 => V::rotr(&x, wbits(ty), ROTS[(kind - 1) as usize]),
                    9 => V::rotr(&x, wbits(ty), 32),
                    10 => V::bswap(&x, wbits(ty)),
                    11 => V::shuffle4(&x, 32, 1230),
                    12 => V::shuffle4(&x, 32, 2301),
                    13 => V::shuffle4(&x, 32, 3012),
                    _ => V::swapn(&x, SWAPS[(kind - 14) as usize]),
                };
            }
            VOp::Lane { dst, a, from, to, .. } => {
                let lane = r[a as usize][16 * from as usize..16 * from as usize + 16].to_vec();
                r[dst as usize][16 * to as usize..16 * to as usize + 16].copy_from_slice(&lane);
            }
            VOp::Transpose => {
                let t = V::transpose4([&r[0], &r[1], &r[2], &r[3]]);
                r = t.to_vec();
            }
            VOp::Relane { dst, a, rot, .. } => {
                let x = r[a as usize].clone();
                let mut y = vec![0u8; 64];
                for l in 0..4usize {
                    let src = (l + rot as usize) % 4;
                    y[16 * l..16 * l + 16].copy_from_slice(&x[16 * src..16 * src + 16]);
                }
                r[dst as usize] = y;
            }
        }
    }
    r
}

macro_rules! un_common {
    ($x:ident, $kind:expr) => {
        match $kind {
            0 => !$x,
            1 => $x.rotate_each_word_right7(),
            2 => $x.rotate_each_word_right8(),
            3 => $x.rotate_each_word_right11(),
            4 => $x.rotate_each_word_right12(),
            5 => $x.rotate_each_word_right16(),
            6 => $x.rotate_each_word_right20(),
            7 => $x.rotate_each_word_right24(),
            _ => $x.rotate_each_word_right25(),
        }
    };
}

#[inline(always)]
pub fn exec<M: Machine>(m: M, p: &VProg) -> Vec<Vec<u8>> {
    let mut r: Vec<vec512_storage> = p.regs.iter().map(|x| st512(&x.0)).collect();
    for op in &p.ops {
        match normalise(op.clone()) {
            VOp::Bin { kind, ty, dst, a, b } => {
                macro_rules! bin {
                    ($t:ty, $arith:expr) => {{
                        let x: $t = m.unpack(r[a as usize]);
                        let y: $t = m.unpack(r[b as usize]);
                        let z: $t = match kind {
                            1 => x ^ y,
                            6 => { let mut t = x; t ^= y; t }
                            2 => x & y,
                            3 => x | y,
                            4 => x.andnot(y),
                            k => $arith(x, y, k),
                        };
                        r[dst as usize] = z.into();
                    }};
                }
                match ty {
                    0 => bin!(M::u32x4x4, |x: M::u32x4x4, y: M::u32x4x4, k: u8| if k == 0 { x + y } else { let mut t = x; t += y; t }),
                    1 => bin!(M::u64x2x4, |x: M::u64x2x4, y: M::u64x2x4, k: u8| if k == 0 { x + y } else { let mut t = x; t += y; t }),
                    _ => bin!(M::u128x4, |x: M::u128x4, y: M::u128x4, _k: u8| x ^ y),
                }
            }
            VOp::Un { kind, ty, dst, a } => match ty {
                0 => {
                    let x: M::u32x4x4 = m.unpack(r[a as usize]);
                    let z = match kind {
                        0..=8 => un_common!(x, kind),
                        10 => x.bswap(),
                        11 => x.shuffle_lane_words1230(),
                        12 => x.shuffle_lane_words2301(),
                        _ => x.shuffle_lane_words3012(),
                    };
                    r[dst as usize] = z.into();
                }
                1 => {
                    let x: M::u64x2x4 = m.unpack(r[a as usize]);
                    let z = match kind {
                        0..=8 => un_common!(x, kind),
                        9 => x.rotate_each_word_right32(),
                        _ => x.bswap(),
                    };
                    r[dst as usize] = z.into();
                }
                _ => {
                    let x: M::u128x4 = m.unpack(r[a as usize]);
                    let z = match kind {
                        0..=8 => un_common!(x, kind),
                        9 => x.rotate_each_word_right32(),
                        14 => x.swap1(),
                        15 => x.swap2(),
                        16 => x.swap4(),
                        17 => x.swap8(),
                        18 => x.swap16(),
                        19 => x.swap32(),
                        _ => x.swap64(),
                    };
                    r[dst as usize] = z.into();
                }
            },
            VOp::Lane { ty, dst, a, from, to } => {
                macro_rules! lane {
                    ($t:ty) => {{
                        let x: $t = m.unpack(r[a as usize]);
                        let d: $t = m.unpack(r[dst as usize]);
                        r[dst as usize] = d.insert(x.extract(from as u32), to as u32).into();
                    }};
                }
                match ty {
                    0 => lane!(M::u32x4x4),
                    1 => lane!(M::u64x2x4),
                    _ => lane!(M::u128x4),
                }
            }
            VOp::Transpose => {
                let a: M::u32x4x4 = m.unpack(r[0]);
                let b: M::u32x4x4 = m.unpack(r[1]);
                let c: M::u32x4x4 = m.unpack(r[2]);
                let d: M::u32x4x4 = m.unpack(r[3]);
                let (p0, p1, p2, p3) = M::u32x4x4::transpose4(a, b, c, d);
                r[0] = p0.into();
                r[1] = p1.into();
                r[2] = p2.into();
                r[3] = p3.into();
            }
            VOp::Relane { ty, dst, a, rot } => {
                macro_rules! relane {
                    ($t:ty) => {{
                        let x: $t = m.unpack(r[a as usize]);
                        let l = x.to_lanes();
                        let k = rot as usize;
                        let y = <$t>::from_lanes([l[k % 4], l[(1 + k) % 4], l[(2 + k) % 4], l[(3 + k) % 4]]);
                        r[dst as usize] = y.into();
                    }};
                }
                match ty {
                    0 => relane!(M::u32x4x4),
                    1 => relane!(M::u64x2x4),
                    _ => relane!(M::u128x4),
                }
            }
        }
    }
    let _ = (by128, st128);
    r.into_iter().map(by512).collect()
}

#[cfg(not(feature = "cfg-nosimd"))]
pub fn exec_on(be: &str, p: &VProg) -> Result<Vec<Vec<u8>>, String> {
    use ppv_lite86::x86_64::{AVX, AVX2, SSE2, SSE41, SSSE3};
    #[target_feature(enable = "avx2")]
    unsafe fn avx2(p: &VProg) -> Vec<Vec<u8>> { exec(AVX2::instance(), p) }
    #[target_feature(enable = "avx,sse4.1,ssse3")]
    unsafe fn avx(p: &VProg) -> Vec<Vec<u8>> { exec(AVX::instance(), p) }
    #[target_feature(enable = "sse4.1,ssse3")]
    unsafe fn sse41(p: &VProg) -> Vec<Vec<u8>> { exec(SSE41::instance(), p) }
    #[target_feature(enable = "ssse3")]
    unsafe fn ssse3(p: &VProg) -> Vec<Vec<u8>> { exec(SSSE3::instance(), p) }
    unsafe fn sse2(p: &VProg) -> Vec<Vec<u8>> { exec(SSE2::instance(), p) }
    guard(|| unsafe {
        match be {
            "sse2" => sse2(p),
            "ssse3" => ssse3(p),
            "sse41" => sse41(p),
            "avx" => avx(p),
            "avx2" => avx2(p),
            _ => panic!("HARNESS: back end"),
        }
    })
}
#[cfg(not(feature = "cfg-nosimd"))]
pub const BACKENDS: [&str; 5] = ["sse2", "ssse3", "sse41", "avx", "avx2"];

#[cfg(feature = "cfg-nosimd")]
pub fn exec_on(_be: &str, p: &VProg) -> Result<Vec<Vec<u8>>, String> {
    guard(|| exec(unsafe { ppv_lite86::generic::GenericMachine::instance() }, p))
}
#[cfg(feature = "cfg-nosimd")]
pub const BACKENDS: [&str; 1] = ["portable"];

/// Run the program on every back end of this build and compare with the model.
pub fn vprog_check(prop: &str, known: &[String], p: &VProg, info: &mut CaseInfo) -> Result<(), Fail> {
    let want = model(p);
    info.nontrivial = p.ops.len() >= 2;
    info.label_if(p.ops.len() >= 8, "program of >= 8 operations");
    let mut first: Option<Fail> = None;
    for be in BACKENDS {
        let r = exec_on(be, p);
        let f = match r {
            Err(msg) => Some(Fail::new(format!("{}:{}:program:PANIC", prop, be), format!("program of {} ops panicked: {}", p.ops.len(), msg))),
            Ok(g) if g != want => {
                let reg = g.iter().zip(want.iter()).position(|(x, y)| x != y).unwrap_or(0);
                Some(Fail::new(format!("{}:{}:program:WRONG", prop, be), format!("register {} after {} ops: got {}.. want {}..", reg, p.ops.len(), crate::refmodels::hex(&g[reg][..16]), crate::refmodels::hex(&want[reg][..16]))))
            }
            Ok(_) => None,
        };
        if let Some(f) = f {
            if known.iter().any(|k| *k == f.sig) {
                info.known_hits.push(f.sig);
            } else if first.is_none() {
                first = Some(f);
            }
        }
    }
    match first {
        Some(f) => Err(f),
        None => Ok(()),
    }
}
