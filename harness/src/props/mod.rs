pub mod align;
pub mod backends;
pub mod chacha_guts;
pub mod conc;
pub mod chacha_stream;
pub mod hashes;
pub mod ppvnull;
pub mod threefish;
pub mod vecprog;
pub mod vecs;

use crate::engine::Ctx;

/// Dispatch a property id to its runner. Returns false for an unknown id.
pub fn run(ctx: &mut Ctx) -> bool {
    match ctx.prop.as_str() {
        "C01" => chacha_stream::run_c01(ctx),
        "C02" => chacha_stream::run_c02(ctx),
        "C04" => hashes::run_c04(ctx),
        "C05" => hashes::run_c05(ctx),
        "C06" => hashes::run_c06(ctx),
        "C07" => hashes::run_c07(ctx),
        "C08" => hashes::run_c08(ctx),
        "C17" => hashes::run_c17(ctx),
        "C09" => threefish::run_c09(ctx),
        "C10" => threefish::run_c10(ctx),
        "C19" => ppvnull::run_c19(ctx),
        "C12" => vecs::run_c12(ctx),
        "C13" => vecs::run_c13(ctx),
        "C03" => backends::run_c03(ctx),
        "C16" => align::run_c16(ctx),
        "C18" => conc::run_c18(ctx),
        "C20" => backends::run_c20(ctx),
        "C11" => chacha_stream::run_c11(ctx),
        "C14" => chacha_guts::run_c14(ctx),
        "C15" => chacha_guts::run_c15(ctx),
        _ => return false,
    }
    true
}
