pub mod chacha_stream;

use crate::engine::Ctx;

/// Dispatch a property id to its runner. Returns false for an unknown id.
pub fn run(ctx: &mut Ctx) -> bool {
    match ctx.prop.as_str() {
        "C01" => chacha_stream::run_c01(ctx),
        "C02" => chacha_stream::run_c02(ctx),
        "C11" => chacha_stream::run_c11(ctx),
        _ => return false,
    }
    true
}
