//! C19: the emulated vector types of ppv-null against scalar lane arithmetic.

use crate::engine::{CaseInfo, Cells, Ctx, Fail};
use crate::gen::{bytes_n, HexBytes};
use crate::refmodels::vecops as V;
use crypto_simd_01::{RotateWordsRight, SplatRotateRight};
use proptest::prelude::*;
use serde::{Deserialize, Serialize};

#[derive(Clone, Debug, Serialize, Deserialize)]
pub struct NullCase {
    pub a: HexBytes,
    pub b: HexBytes,
    /// rotate amounts for the per-word rotate (each reduced into 1..bits-1)
    pub rots: [u8; 4],
    pub splat_rot: u8,
    pub word_rot: u8,
    pub idx: u8,
    pub val: u64,
}

/// The two crypto-simd traits called THROUGH the trait (generic code sees only the bound; an inherent method of the
/// same name would win for `v.method()` on the concrete type and hide what the trait impl does).
fn via_srr<T: SplatRotateRight>(v: T, i: u32) -> T::Output {
    v.splat_rotate_right(i)
}
fn via_rwr<T: RotateWordsRight>(v: T, i: u32) -> T::Output {
    v.rotate_words_right(i)
}

pub fn null_strategy() -> BoxedStrategy<NullCase> {
    (bytes_n(64), bytes_n(64), any::<[u8; 4]>(), any::<u8>(), 0u8..4, 0u8..4, prop_oneof![any::<u64>(), Just(u64::MAX), Just(0u64)])
        .prop_map(|(a, b, rots, splat_rot, word_rot, idx, val)| NullCase { a, b, rots, splat_rot, word_rot, idx, val })
        .boxed()
}

fn w32(b: &[u8]) -> Vec<u32> {
    V::words(b, 32).iter().map(|x| *x as u32).collect()
}
fn w64(b: &[u8]) -> Vec<u64> {
    V::words(b, 64).iter().map(|x| *x as u64).collect()
}
fn w128(b: &[u8]) -> Vec<u128> {
    V::words(b, 128)
}
fn b32(w: &[u32]) -> Vec<u8> {
    w.iter().flat_map(|x| x.to_le_bytes()).collect()
}
fn b64(w: &[u64]) -> Vec<u8> {
    w.iter().flat_map(|x| x.to_le_bytes()).collect()
}
fn b128(w: &[u128]) -> Vec<u8> {
    w.iter().flat_map(|x| x.to_le_bytes()).collect()
}

macro_rules! vec4_cells {
    ($cells:ident, $c:ident, $ty:ident, $tyname:expr, $word:ident, $bits:expr, $wfn:ident, $bfn:ident, $nbytes:expr) => {{
        use ppv_null::$ty;
        let a = &$c.a.0[..$nbytes];
        let b = &$c.b.0[..$nbytes];
        let (wa, wb) = ($wfn(a), $wfn(b));
        let mk = |w: &[$word]| $ty::new(w[0], w[1], w[2], w[3]);
        let rd = |v: $ty| -> Vec<u8> { $bfn(&[v.extract(0), v.extract(1), v.extract(2), v.extract(3)]) };
        let cell = |op: &str| format!("C19:{}:{}", $tyname, op);
        $cells.check(&cell("new+extract"), || rd(mk(&wa)), a.to_vec());
        $cells.check(&cell("from_slice_unaligned"), || rd($ty::from_slice_unaligned(&wa)), a.to_vec());
        $cells.check(&cell("write_to_slice_unaligned"), || { let mut o = [0 as $word; 4]; mk(&wa).write_to_slice_unaligned(&mut o); $bfn(&o) }, a.to_vec());
        $cells.check(&cell("splat"), || rd($ty::splat(wa[0])), $bfn(&[wa[0]; 4]));
        $cells.check(&cell("add"), || rd(mk(&wa) + mk(&wb)), V::add(a, b, $bits));
        $cells.check(&cell("add_assign"), || { let mut x = mk(&wa); x += mk(&wb); rd(x) }, V::add(a, b, $bits));
        $cells.check(&cell("xor"), || rd(mk(&wa) ^ mk(&wb)), V::xor(a, b));
        $cells.check(&cell("xor_assign"), || { let mut x = mk(&wa); x ^= mk(&wb); rd(x) }, V::xor(a, b));
        $cells.check(&cell("and"), || rd(mk(&wa) & mk(&wb)), V::and(a, b));
        $cells.check(&cell("or"), || rd(mk(&wa) | mk(&wb)), V::or(a, b));
        // per-word rotate by the lanes of a second vector, amounts 1..bits-1
        let amts: Vec<$word> = $c.rots.iter().map(|r| (1 + (*r as u32 % ($bits - 1))) as $word).collect();
        let want: Vec<$word> = wa.iter().zip(amts.iter()).map(|(x, n)| {
            let n = *n as u32;
            (x >> n) | (x << ($bits - n))
        }).collect();
        $cells.check(&cell("rotate_right"), || { let mut x = mk(&wa); rd(x.rotate_right(mk(&amts))) }, $bfn(&want));
        let sr = 1 + ($c.splat_rot as u32 % ($bits - 1));
        $cells.check(&cell("splat_rotate_right"), || rd(mk(&wa).splat_rotate_right(sr)), V::rotr(a, $bits, sr));
        $cells.check(&cell("trait:splat_rotate_right"), || rd(via_srr(mk(&wa), sr)), V::rotr(a, $bits, sr));
        let wr = $c.word_rot as usize % 4;
        let want: Vec<$word> = (0..4).map(|i| wa[(i + 4 - wr) % 4]).collect();
        $cells.check(&cell(&format!("rotate_words_right{}", wr)), || rd(mk(&wa).rotate_words_right(wr as u32)), $bfn(&want));
        $cells.check(&cell(&format!("trait:rotate_words_right{}", wr)), || rd(via_rwr(mk(&wa), wr as u32)), $bfn(&want));
        let i = $c.idx as usize % 4;
        let mut e = wa.clone();
        e[i] = $c.val as $word;
        $cells.check(&cell(&format!("replace{}", i)), || rd(mk(&wa).replace(i, $c.val as $word)), $bfn(&e));
        $cells.check(&cell(&format!("extract{}", i)), || mk(&wa).extract(i), wa[i]);
    }};
}

pub fn null_check(known: &[String], c: &NullCase, info: &mut CaseInfo) -> Result<(), Fail> {
    let mut cells = Cells::new(known, info);
    vec4_cells!(cells, c, u32x4, "u32x4", u32, 32u32, w32, b32, 16);
    vec4_cells!(cells, c, u64x4, "u64x4", u64, 64u32, w64, b64, 32);
    // ---- u128x1
    {
        use ppv_null::u128x1;
        let a = &c.a.0[..16];
        let b = &c.b.0[..16];
        let (xa, xb) = (w128(a)[0], w128(b)[0]);
        let rd = |v: u128x1| b128(&[v.into_inner()]);
        let cell = |op: &str| format!("C19:u128x1:{}", op);
        cells.check(&cell("new+into_inner"), || rd(u128x1::new(xa)), a.to_vec());
        cells.check(&cell("load"), || rd(u128x1::load(&[xa])), a.to_vec());
        cells.check(&cell("extract0"), || u128x1::new(xa).extract(0), xa);
        cells.check(&cell("xor_store"), || { let mut o = [xb]; u128x1::new(xa).xor_store(&mut o); b128(&o) }, V::xor(a, b));
        cells.check(&cell("add_assign"), || { let mut x = u128x1::new(xa); x += u128x1::new(xb); rd(x) }, V::add(a, b, 128));
        cells.check(&cell("xor"), || rd(u128x1::new(xa) ^ u128x1::new(xb)), V::xor(a, b));
        cells.check(&cell("xor_assign"), || { let mut x = u128x1::new(xa); x ^= u128x1::new(xb); rd(x) }, V::xor(a, b));
        cells.check(&cell("and"), || rd(u128x1::new(xa) & u128x1::new(xb)), V::and(a, b));
        cells.check(&cell("not"), || rd(!u128x1::new(xa)), V::not(a));
        cells.check(&cell("andnot"), || rd(u128x1::new(xa).andnot(u128x1::new(xb))), V::andnot(a, b));
        let r = 1 + (c.splat_rot as u32 % 127);
        cells.check(&cell("rotate_right"), || { let mut x = u128x1::new(xa); x.rotate_right(r as u128); rd(x) }, V::rotr(a, 128, r));
        cells.check(&cell("swap1"), || rd(u128x1::new(xa).swap1()), V::swapn(a, 1));
        cells.check(&cell("swap2"), || rd(u128x1::new(xa).swap2()), V::swapn(a, 2));
        cells.check(&cell("swap4"), || rd(u128x1::new(xa).swap4()), V::swapn(a, 4));
        cells.check(&cell("swap8"), || rd(u128x1::new(xa).swap8()), V::swapn(a, 8));
        cells.check(&cell("swap16"), || rd(u128x1::new(xa).swap16()), V::swapn(a, 16));
        cells.check(&cell("swap32"), || rd(u128x1::new(xa).swap32()), V::swapn(a, 32));
        cells.check(&cell("swap64"), || rd(u128x1::new(xa).swap64()), V::swapn(a, 64));
    }
    // ---- u128x2
    {
        use ppv_null::u128x2;
        let a = &c.a.0[..32];
        let b = &c.b.0[..32];
        let (wa, wb) = (w128(a), w128(b));
        let mk = |w: &[u128]| u128x2::new(w[0], w[1]);
        let rd = |v: u128x2| b128(&[v.extract(0), v.extract(1)]);
        let cell = |op: &str| format!("C19:u128x2:{}", op);
        cells.check(&cell("new+extract"), || rd(mk(&wa)), a.to_vec());
        cells.check(&cell("load"), || rd(u128x2::load(&wa)), a.to_vec());
        cells.check(&cell("xor_store"), || { let mut o = [wb[0], wb[1]]; mk(&wa).xor_store(&mut o); b128(&o) }, V::xor(a, b));
        cells.check(&cell("add_assign"), || { let mut x = mk(&wa); x += mk(&wb); rd(x) }, V::add(a, b, 128));
        cells.check(&cell("xor_assign"), || { let mut x = mk(&wa); x ^= mk(&wb); rd(x) }, V::xor(a, b));
        cells.check(&cell("and"), || rd(mk(&wa) & mk(&wb)), V::and(a, b));
        cells.check(&cell("or"), || rd(mk(&wa) | mk(&wb)), V::or(a, b));
        cells.check(&cell("not"), || rd(!mk(&wa)), V::not(a));
        cells.check(&cell("andnot"), || rd(mk(&wa).andnot(mk(&wb))), V::andnot(a, b));
        let r = 1 + (c.splat_rot as u32 % 127);
        cells.check(&cell("rotate_right"), || { let mut x = mk(&wa); x.rotate_right(r as u128); rd(x) }, V::rotr(a, 128, r));
    }
    // ---- u32x4x4
    {
        use ppv_null::{u32x4, u32x4x4};
        let a = &c.a.0[..64];
        let b = &c.b.0[..64];
        let (wa, wb) = (w32(a), w32(b));
        let lane = |w: &[u32], i: usize| u32x4::new(w[4 * i], w[4 * i + 1], w[4 * i + 2], w[4 * i + 3]);
        let mk = |w: &[u32]| u32x4x4::from((lane(w, 0), lane(w, 1), lane(w, 2), lane(w, 3)));
        let rd = |v: u32x4x4| -> Vec<u8> {
            let (p, q, r, s) = v.into_parts();
            let mut o = Vec::new();
            for l in [p, q, r, s] {
                for i in 0..4 {
                    o.extend_from_slice(&l.extract(i).to_le_bytes());
                }
            }
            o
        };
        let cell = |op: &str| format!("C19:u32x4x4:{}", op);
        cells.check(&cell("from+into_parts"), || rd(mk(&wa)), a.to_vec());
        cells.check(&cell("splat"), || rd(u32x4x4::splat(lane(&wa, 0))), [&a[..16], &a[..16], &a[..16], &a[..16]].concat());
        cells.check(&cell("add"), || rd(mk(&wa) + mk(&wb)), V::add(a, b, 32));
        cells.check(&cell("add_assign"), || { let mut x = mk(&wa); x += mk(&wb); rd(x) }, V::add(a, b, 32));
        cells.check(&cell("xor"), || rd(mk(&wa) ^ mk(&wb)), V::xor(a, b));
        cells.check(&cell("xor_assign"), || { let mut x = mk(&wa); x ^= mk(&wb); rd(x) }, V::xor(a, b));
        cells.check(&cell("and"), || rd(mk(&wa) & mk(&wb)), V::and(a, b));
        cells.check(&cell("or"), || rd(mk(&wa) | mk(&wb)), V::or(a, b));
        let sr = 1 + (c.splat_rot as u32 % 31);
        cells.check(&cell("splat_rotate_right"), || rd(mk(&wa).splat_rotate_right(sr)), V::rotr(a, 32, sr));
        cells.check(&cell("trait:splat_rotate_right"), || rd(via_srr(mk(&wa), sr)), V::rotr(a, 32, sr));
        let wr = c.word_rot as usize % 4;
        let want: Vec<u32> = (0..16).map(|i| wa[(i / 4) * 4 + (i % 4 + 4 - wr) % 4]).collect();
        cells.check(&cell(&format!("rotate_words_right{}", wr)), || rd(mk(&wa).rotate_words_right(wr as u32)), b32(&want));
        cells.check(&cell(&format!("trait:rotate_words_right{}", wr)), || rd(via_rwr(mk(&wa), wr as u32)), b32(&want));
    }
    let nz = c.a.0.iter().any(|x| *x != 0);
    cells.info.nontrivial = nz;
    cells.finish()
}

pub fn run_c19(ctx: &mut Ctx) {
    let known = ctx.known.clone();
    let n = ctx.count(500_000, 12_000_000);
    ctx.run("lane-arithmetic", n, null_strategy(), |c, i| null_check(&known, c, i));
    let n = ctx.count(60_000, 1_000_000);
    ctx.run("operation-chains", n, chain_strategy(), chain_check);
    ctx.required_classes.push("run of >= 64 word rotations".into());
    ctx.required_classes.push("chain mixes splat-built and part-built values".into());
}

// ------------------------------------------------------------------------------------------------
// chains: long sequences of operations on one value (state that builds up inside a value - lazily
// applied rotations, cached offsets - only shows after many steps)
// ------------------------------------------------------------------------------------------------

#[derive(Clone, Debug, Serialize, Deserialize, PartialEq, Eq)]
pub enum NOp {
    RotWords(u8),
    SplatRot(u8),
    AddB,
    AddAssignB,
    XorB,
    XorAssignB,
    AndB,
    OrB,
    Replace(u8, u64),
    RotateRightLanes([u8; 4]),
    /// from here on the second operand is `splat(first word / first lane of b)` (true) or the full `b` (false): values
    /// built by `splat` and values built part by part must be interchangeable at every point of a chain
    OperandSplat(bool),
}

#[derive(Clone, Debug, Serialize, Deserialize)]
pub struct NullChain {
    pub a: HexBytes,
    pub b: HexBytes,
    /// (operation, repetitions)
    pub runs: Vec<(NOp, u16)>,
    /// the chain starts from `splat(first word / lane of a)` instead of the full `a`
    #[serde(default)]
    pub start_splat: bool,
}

pub fn chain_strategy() -> BoxedStrategy<NullChain> {
    let op = prop_oneof![
        6 => (0u8..4).prop_map(NOp::RotWords),
        3 => any::<u8>().prop_map(NOp::SplatRot),
        1 => Just(NOp::AddB), 1 => Just(NOp::AddAssignB), 1 => Just(NOp::XorB), 1 => Just(NOp::XorAssignB),
        1 => Just(NOp::AndB), 1 => Just(NOp::OrB),
        1 => (0u8..4, any::<u64>()).prop_map(|(i, v)| NOp::Replace(i, v)),
        1 => any::<[u8; 4]>().prop_map(NOp::RotateRightLanes),
        2 => any::<bool>().prop_map(NOp::OperandSplat),
    ];
    let reps = prop_oneof![6 => 1u16..4, 2 => 4u16..70, 2 => 60u16..300];
    (bytes_n(64), bytes_n(64), prop::collection::vec((op, reps), 1..10), prop::bool::weighted(0.3)).prop_map(|(a, b, runs, start_splat)| NullChain { a, b, runs, start_splat }).boxed()
}

fn model_step(cur: &[u8], b: &[u8], op: &NOp, wbits: u32) -> Vec<u8> {
    let wb = (wbits / 8) as usize;
    match op {
        NOp::RotWords(i) => {
            let i = *i as usize % 4;
            let mut out = vec![0u8; cur.len()];
            let nw = cur.len() / wb;
            for j in 0..nw {
                let g = j / 4 * 4;
                let src = g + (j % 4 + 4 - i) % 4;
                out[j * wb..(j + 1) * wb].copy_from_slice(&cur[src * wb..(src + 1) * wb]);
            }
            out
        }
        NOp::SplatRot(r) => V::rotr(cur, wbits, 1 + (*r as u32 % (wbits - 1))),
        NOp::AddB | NOp::AddAssignB => V::add(cur, b, wbits),
        NOp::XorB | NOp::XorAssignB => V::xor(cur, b),
        NOp::AndB => V::and(cur, b),
        NOp::OrB => V::or(cur, b),
        NOp::Replace(i, v) => {
            let mut out = cur.to_vec();
            let i = *i as usize % 4;
            // replace acts on the first group of four words (the inner vector for u32x4x4 is not addressed)
            out[i * wb..(i + 1) * wb].copy_from_slice(&v.to_le_bytes()[..wb]);
            out
        }
        NOp::OperandSplat(_) => cur.to_vec(),
        NOp::RotateRightLanes(a) => {
            let m = if wbits == 128 { u128::MAX } else { (1u128 << wbits) - 1 };
            let w = V::words(cur, wbits);
            let out: Vec<u128> = w.iter().enumerate().map(|(j, x)| {
                let n = 1 + (a[j % 4] as u32 % (wbits - 1));
                ((x >> n) | (x << (wbits - n))) & m
            }).collect();
            V::unwords(&out, wbits)
        }
    }
}

macro_rules! chain_vec4 {
    ($c:ident, $ty:ident, $word:ident, $bits:expr, $wfn:ident, $bfn:ident, $nbytes:expr) => {{
        use ppv_null::$ty;
        let a = &$c.a.0[..$nbytes];
        let b = &$c.b.0[..$nbytes];
        let mk = |w: &[$word]| $ty::new(w[0], w[1], w[2], w[3]);
        let rd = |v: $ty| -> Vec<u8> { $bfn(&[v.extract(0), v.extract(1), v.extract(2), v.extract(3)]) };
        let vb_full = mk(&$wfn(b));
        let vb_splat = $ty::splat($wfn(b)[0]);
        let wbytes = ($bits / 8) as usize;
        let b_splat: Vec<u8> = b[..wbytes].iter().cycle().take($nbytes).cloned().collect();
        let a_splat: Vec<u8> = a[..wbytes].iter().cycle().take($nbytes).cloned().collect();
        let mut want = if $c.start_splat { a_splat } else { a.to_vec() };
        let mut cur_b: &[u8] = b;
        for (op, reps) in &$c.runs {
            if let NOp::OperandSplat(f) = op {
                cur_b = if *f { &b_splat } else { b };
            }
            for _ in 0..*reps {
                want = model_step(&want, cur_b, op, $bits);
            }
        }
        let got = crate::engine::guard(|| {
            let mut v = if $c.start_splat { $ty::splat($wfn(a)[0]) } else { mk(&$wfn(a)) };
            let mut vb = vb_full;
            for (op, reps) in &$c.runs {
                if let NOp::OperandSplat(f) = op {
                    vb = if *f { vb_splat } else { vb_full };
                }
                for _ in 0..*reps {
                    v = match op {
                        NOp::OperandSplat(_) => v,
                        NOp::RotWords(i) => v.rotate_words_right((*i % 4) as u32),
                        NOp::SplatRot(r) => v.splat_rotate_right(1 + (*r as u32 % ($bits - 1))),
                        NOp::AddB => v + vb,
                        NOp::AddAssignB => { let mut t = v; t += vb; t }
                        NOp::XorB => v ^ vb,
                        NOp::XorAssignB => { let mut t = v; t ^= vb; t }
                        NOp::AndB => v & vb,
                        NOp::OrB => v | vb,
                        NOp::Replace(i, x) => v.replace((*i % 4) as usize, *x as $word),
                        NOp::RotateRightLanes(am) => {
                            let amts: Vec<$word> = am.iter().map(|r| (1 + (*r as u32 % ($bits - 1))) as $word).collect();
                            let mut t = v;
                            t.rotate_right(mk(&amts))
                        }
                    };
                }
            }
            rd(v)
        });
        (got, want)
    }};
}

pub fn chain_check(c: &NullChain, info: &mut CaseInfo) -> Result<(), Fail> {
    let total: u32 = c.runs.iter().map(|(_, r)| *r as u32).sum();
    let longest_rot: u32 = c.runs.iter().filter(|(o, _)| matches!(o, NOp::RotWords(_))).map(|(_, r)| *r as u32).max().unwrap_or(0);
    info.nontrivial = total >= 2;
    info.label_if(total >= 64, "chain of >= 64 operations");
    info.label_if(longest_rot >= 64, "run of >= 64 word rotations");
    info.label_if(c.start_splat || c.runs.iter().any(|(o, _)| matches!(o, NOp::OperandSplat(true))), "chain mixes splat-built and part-built values");
    let report = |ty: &str, r: (Result<Vec<u8>, String>, Vec<u8>)| -> Result<(), Fail> {
        match r.0 {
            Err(p) => Err(Fail::new(format!("C19:{}:chain:PANIC", ty), format!("chain of {} operations panicked: {}", total, p))),
            Ok(g) if g != r.1 => Err(Fail::new(format!("C19:{}:chain:WRONG", ty), format!("after {} operations: got {} want {}", total, crate::refmodels::hex(&g), crate::refmodels::hex(&r.1)))),
            Ok(_) => Ok(()),
        }
    };
    report("u32x4", chain_vec4!(c, u32x4, u32, 32u32, w32, b32, 16))?;
    report("u64x4", chain_vec4!(c, u64x4, u64, 64u32, w64, b64, 32))?;
    // u32x4x4: the same chain on four inner vectors (replace / per-lane rotate are not offered there)
    {
        use ppv_null::{u32x4, u32x4x4};
        let a = &c.a.0[..64];
        let b = &c.b.0[..64];
        let lane = |w: &[u32], i: usize| u32x4::new(w[4 * i], w[4 * i + 1], w[4 * i + 2], w[4 * i + 3]);
        let mk = |w: &[u32]| u32x4x4::from((lane(w, 0), lane(w, 1), lane(w, 2), lane(w, 3)));
        let vb_full = mk(&w32(b));
        let vb_splat = u32x4x4::splat(lane(&w32(b), 0));
        let b_splat: Vec<u8> = b[..16].iter().cycle().take(64).cloned().collect();
        let a_splat: Vec<u8> = a[..16].iter().cycle().take(64).cloned().collect();
        let mut want = if c.start_splat { a_splat } else { a.to_vec() };
        let mut cur_b: &[u8] = b;
        for (op, reps) in &c.runs {
            if let NOp::OperandSplat(f) = op {
                cur_b = if *f { &b_splat } else { b };
            }
            if matches!(op, NOp::Replace(..) | NOp::RotateRightLanes(_)) {
                continue;
            }
            for _ in 0..*reps {
                want = model_step(&want, cur_b, op, 32);
            }
        }
        let got = crate::engine::guard(|| {
            let mut v = if c.start_splat { u32x4x4::splat(lane(&w32(a), 0)) } else { mk(&w32(a)) };
            let mut vb = vb_full;
            for (op, reps) in &c.runs {
                if let NOp::OperandSplat(f) = op {
                    vb = if *f { vb_splat } else { vb_full };
                }
                for _ in 0..*reps {
                    v = match op {
                        NOp::OperandSplat(_) => v,
                        NOp::RotWords(i) => v.rotate_words_right((*i % 4) as u32),
                        NOp::SplatRot(r) => v.splat_rotate_right(1 + (*r as u32 % 31)),
                        NOp::AddB => v + vb,
                        NOp::AddAssignB => { let mut t = v; t += vb; t }
                        NOp::XorB => v ^ vb,
                        NOp::XorAssignB => { let mut t = v; t ^= vb; t }
                        NOp::AndB => v & vb,
                        NOp::OrB => v | vb,
                        NOp::Replace(..) | NOp::RotateRightLanes(_) => v,
                    };
                }
            }
            let (p, q, r, s) = v.into_parts();
            let mut o = Vec::new();
            for l in [p, q, r, s] {
                for i in 0..4 {
                    o.extend_from_slice(&l.extract(i).to_le_bytes());
                }
            }
            o
        });
        report("u32x4x4", (got, want))?;
    }
    Ok(())
}
