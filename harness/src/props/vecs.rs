//! C12 (word-wise operations) and C13 (data movement) of ppv-lite86, written once against the
//! trait bounds of `types.rs` and instantiated for every `Machine` of the build configuration.

use crate::engine::{CaseInfo, Cells, Ctx, Fail};
use crate::gen::{bytes_n, HexBytes};
use crate::refmodels::vecops as V;
use ppv_lite86::*;
use proptest::prelude::*;
use serde::{Deserialize, Serialize};

#[derive(Clone, Debug, Serialize, Deserialize)]
pub struct VecCase {
    pub a: HexBytes,
    pub b: HexBytes,
    pub c: HexBytes,
    pub d: HexBytes,
    pub w: u64,
}

pub fn vec_strategy() -> BoxedStrategy<VecCase> {
    (bytes_n(64), bytes_n(64), bytes_n(64), bytes_n(64), prop_oneof![any::<u64>(), Just(0u64), Just(u64::MAX)])
        .prop_map(|(a, b, c, d, w)| VecCase { a, b, c, d, w })
        .boxed()
}

// ---- storage <-> bytes through the API that every back end offers
pub fn st128(b: &[u8]) -> vec128_storage {
    let w: Vec<u32> = b.chunks(4).map(|c| u32::from_le_bytes(c.try_into().unwrap())).collect();
    [w[0], w[1], w[2], w[3]].into()
}
pub fn by128(s: vec128_storage) -> Vec<u8> {
    let a: [u32; 4] = s.into();
    a.iter().flat_map(|x| x.to_le_bytes()).collect()
}
pub fn st256(b: &[u8]) -> vec256_storage {
    vec256_storage::new128([st128(&b[..16]), st128(&b[16..32])])
}
pub fn by256(s: vec256_storage) -> Vec<u8> {
    let p = s.split128();
    [by128(p[0]), by128(p[1])].concat()
}
pub fn st512(b: &[u8]) -> vec512_storage {
    vec512_storage::new128([st128(&b[..16]), st128(&b[16..32]), st128(&b[32..48]), st128(&b[48..64])])
}
pub fn by512(s: vec512_storage) -> Vec<u8> {
    let p = s.split128();
    [by128(p[0]), by128(p[1]), by128(p[2]), by128(p[3])].concat()
}

fn w32(b: &[u8]) -> Vec<u32> {
    b.chunks(4).map(|c| u32::from_le_bytes(c.try_into().unwrap())).collect()
}
fn w64(b: &[u8]) -> Vec<u64> {
    b.chunks(8).map(|c| u64::from_le_bytes(c.try_into().unwrap())).collect()
}
fn w128(b: &[u8]) -> Vec<u128> {
    b.chunks(16).map(|c| u128::from_le_bytes(c.try_into().unwrap())).collect()
}

macro_rules! bitops0 {
    ($cells:ident, $be:ident, $tn:expr, $mk:ident, $rd:ident, $a:ident, $b:ident) => {{
        let cell = |op: &str| format!("C12:{}:{}:{}", $be, $tn, op);
        $cells.check(&cell("xor"), || $rd($mk($a) ^ $mk($b)), V::xor($a, $b));
        $cells.check(&cell("xor_assign"), || { let mut x = $mk($a); x ^= $mk($b); $rd(x) }, V::xor($a, $b));
        $cells.check(&cell("and"), || $rd($mk($a) & $mk($b)), V::and($a, $b));
        $cells.check(&cell("or"), || $rd($mk($a) | $mk($b)), V::or($a, $b));
        $cells.check(&cell("not"), || $rd(!$mk($a)), V::not($a));
        $cells.check(&cell("andnot"), || $rd($mk($a).andnot($mk($b))), V::andnot($a, $b));
    }};
}
macro_rules! rot32 {
    ($cells:ident, $be:ident, $tn:expr, $mk:ident, $rd:ident, $a:ident, $wbits:expr) => {{
        let cell = |op: &str| format!("C12:{}:{}:{}", $be, $tn, op);
        $cells.check(&cell("rotate_each_word_right7"), || $rd($mk($a).rotate_each_word_right7()), V::rotr($a, $wbits, 7));
        $cells.check(&cell("rotate_each_word_right8"), || $rd($mk($a).rotate_each_word_right8()), V::rotr($a, $wbits, 8));
        $cells.check(&cell("rotate_each_word_right11"), || $rd($mk($a).rotate_each_word_right11()), V::rotr($a, $wbits, 11));
        $cells.check(&cell("rotate_each_word_right12"), || $rd($mk($a).rotate_each_word_right12()), V::rotr($a, $wbits, 12));
        $cells.check(&cell("rotate_each_word_right16"), || $rd($mk($a).rotate_each_word_right16()), V::rotr($a, $wbits, 16));
        $cells.check(&cell("rotate_each_word_right20"), || $rd($mk($a).rotate_each_word_right20()), V::rotr($a, $wbits, 20));
        $cells.check(&cell("rotate_each_word_right24"), || $rd($mk($a).rotate_each_word_right24()), V::rotr($a, $wbits, 24));
        $cells.check(&cell("rotate_each_word_right25"), || $rd($mk($a).rotate_each_word_right25()), V::rotr($a, $wbits, 25));
    }};
}
macro_rules! rot64 {
    ($cells:ident, $be:ident, $tn:expr, $mk:ident, $rd:ident, $a:ident, $wbits:expr) => {{
        let cell = |op: &str| format!("C12:{}:{}:{}", $be, $tn, op);
        $cells.check(&cell("rotate_each_word_right32"), || $rd($mk($a).rotate_each_word_right32()), V::rotr($a, $wbits, 32));
    }};
}
macro_rules! arith {
    ($cells:ident, $be:ident, $tn:expr, $mk:ident, $rd:ident, $a:ident, $b:ident, $wbits:expr) => {{
        let cell = |op: &str| format!("C12:{}:{}:{}", $be, $tn, op);
        $cells.check(&cell("add"), || $rd($mk($a) + $mk($b)), V::add($a, $b, $wbits));
        $cells.check(&cell("add_assign"), || { let mut x = $mk($a); x += $mk($b); $rd(x) }, V::add($a, $b, $wbits));
        $cells.check(&cell("bswap"), || $rd($mk($a).bswap()), V::bswap($a, $wbits));
    }};
}
macro_rules! swaps {
    ($cells:ident, $be:ident, $tn:expr, $mk:ident, $rd:ident, $a:ident) => {{
        let cell = |op: &str| format!("C12:{}:{}:{}", $be, $tn, op);
        $cells.check(&cell("swap1"), || $rd($mk($a).swap1()), V::swapn($a, 1));
        $cells.check(&cell("swap2"), || $rd($mk($a).swap2()), V::swapn($a, 2));
        $cells.check(&cell("swap4"), || $rd($mk($a).swap4()), V::swapn($a, 4));
        $cells.check(&cell("swap8"), || $rd($mk($a).swap8()), V::swapn($a, 8));
        $cells.check(&cell("swap16"), || $rd($mk($a).swap16()), V::swapn($a, 16));
        $cells.check(&cell("swap32"), || $rd($mk($a).swap32()), V::swapn($a, 32));
        $cells.check(&cell("swap64"), || $rd($mk($a).swap64()), V::swapn($a, 64));
    }};
}
macro_rules! words4 {
    ($cells:ident, $be:ident, $tn:expr, $mk:ident, $rd:ident, $a:ident, $wbits:expr) => {{
        let cell = |op: &str| format!("C12:{}:{}:{}", $be, $tn, op);
        $cells.check(&cell("shuffle1230"), || $rd($mk($a).shuffle1230()), V::shuffle4($a, $wbits, 1230));
        $cells.check(&cell("shuffle2301"), || $rd($mk($a).shuffle2301()), V::shuffle4($a, $wbits, 2301));
        $cells.check(&cell("shuffle3012"), || $rd($mk($a).shuffle3012()), V::shuffle4($a, $wbits, 3012));
    }};
}
macro_rules! lanewords4 {
    ($cells:ident, $be:ident, $tn:expr, $mk:ident, $rd:ident, $a:ident) => {{
        let cell = |op: &str| format!("C12:{}:{}:{}", $be, $tn, op);
        $cells.check(&cell("shuffle_lane_words1230"), || $rd($mk($a).shuffle_lane_words1230()), V::shuffle4($a, 32, 1230));
        $cells.check(&cell("shuffle_lane_words2301"), || $rd($mk($a).shuffle_lane_words2301()), V::shuffle4($a, 32, 2301));
        $cells.check(&cell("shuffle_lane_words3012"), || $rd($mk($a).shuffle_lane_words3012()), V::shuffle4($a, 32, 3012));
    }};
}

/// C12: every (type, operation) cell required by the trait bounds, on one operand set.
#[inline(always)]
pub fn c12_cells<M: Machine>(m: M, be: &str, cells: &mut Cells, c: &VecCase)
where
    M::u128x1: BSwap,
{
    // 128-bit types
    {
        let a = &c.a.0[..16];
        let b = &c.b.0[..16];
        {
            let mk = |x: &[u8]| -> M::u32x4 { m.unpack(st128(x)) };
            let rd = |v: M::u32x4| by128(v.into());
            bitops0!(cells, be, "u32x4", mk, rd, a, b);
            rot32!(cells, be, "u32x4", mk, rd, a, 32);
            arith!(cells, be, "u32x4", mk, rd, a, b, 32);
            words4!(cells, be, "u32x4", mk, rd, a, 32);
            lanewords4!(cells, be, "u32x4", mk, rd, a);
        }
        {
            let mk = |x: &[u8]| -> M::u64x2 { m.unpack(st128(x)) };
            let rd = |v: M::u64x2| by128(v.into());
            bitops0!(cells, be, "u64x2", mk, rd, a, b);
            rot32!(cells, be, "u64x2", mk, rd, a, 64);
            rot64!(cells, be, "u64x2", mk, rd, a, 64);
            arith!(cells, be, "u64x2", mk, rd, a, b, 64);
        }
        {
            let mk = |x: &[u8]| -> M::u128x1 { m.unpack(st128(x)) };
            let rd = |v: M::u128x1| by128(v.into());
            bitops0!(cells, be, "u128x1", mk, rd, a, b);
            rot32!(cells, be, "u128x1", mk, rd, a, 128);
            rot64!(cells, be, "u128x1", mk, rd, a, 128);
            swaps!(cells, be, "u128x1", mk, rd, a);
            let cell = format!("C12:{}:u128x1:bswap", be);
            cells.check(&cell, || rd(mk(a).bswap()), V::bswap(a, 128));
        }
    }
    // 256-bit types
    {
        let a = &c.a.0[..32];
        let b = &c.b.0[..32];
        {
            let mk = |x: &[u8]| -> M::u32x4x2 { m.unpack(st256(x)) };
            let rd = |v: M::u32x4x2| by256(v.into());
            bitops0!(cells, be, "u32x4x2", mk, rd, a, b);
            rot32!(cells, be, "u32x4x2", mk, rd, a, 32);
            arith!(cells, be, "u32x4x2", mk, rd, a, b, 32);
        }
        {
            let mk = |x: &[u8]| -> M::u64x2x2 { m.unpack(st256(x)) };
            let rd = |v: M::u64x2x2| by256(v.into());
            bitops0!(cells, be, "u64x2x2", mk, rd, a, b);
            rot32!(cells, be, "u64x2x2", mk, rd, a, 64);
            rot64!(cells, be, "u64x2x2", mk, rd, a, 64);
            arith!(cells, be, "u64x2x2", mk, rd, a, b, 64);
        }
        {
            let mk = |x: &[u8]| -> M::u64x4 { m.unpack(st256(x)) };
            let rd = |v: M::u64x4| by256(v.into());
            bitops0!(cells, be, "u64x4", mk, rd, a, b);
            rot32!(cells, be, "u64x4", mk, rd, a, 64);
            rot64!(cells, be, "u64x4", mk, rd, a, 64);
            arith!(cells, be, "u64x4", mk, rd, a, b, 64);
            words4!(cells, be, "u64x4", mk, rd, a, 64);
        }
        {
            let mk = |x: &[u8]| -> M::u128x2 { m.unpack(st256(x)) };
            let rd = |v: M::u128x2| by256(v.into());
            bitops0!(cells, be, "u128x2", mk, rd, a, b);
            rot32!(cells, be, "u128x2", mk, rd, a, 128);
            rot64!(cells, be, "u128x2", mk, rd, a, 128);
            swaps!(cells, be, "u128x2", mk, rd, a);
        }
    }
    // 512-bit types
    {
        let a = &c.a.0[..64];
        let b = &c.b.0[..64];
        {
            let mk = |x: &[u8]| -> M::u32x4x4 { m.unpack(st512(x)) };
            let rd = |v: M::u32x4x4| by512(v.into());
            bitops0!(cells, be, "u32x4x4", mk, rd, a, b);
            rot32!(cells, be, "u32x4x4", mk, rd, a, 32);
            arith!(cells, be, "u32x4x4", mk, rd, a, b, 32);
            lanewords4!(cells, be, "u32x4x4", mk, rd, a);
        }
        {
            let mk = |x: &[u8]| -> M::u64x2x4 { m.unpack(st512(x)) };
            let rd = |v: M::u64x2x4| by512(v.into());
            bitops0!(cells, be, "u64x2x4", mk, rd, a, b);
            rot32!(cells, be, "u64x2x4", mk, rd, a, 64);
            rot64!(cells, be, "u64x2x4", mk, rd, a, 64);
            arith!(cells, be, "u64x2x4", mk, rd, a, b, 64);
        }
        {
            let mk = |x: &[u8]| -> M::u128x4 { m.unpack(st512(x)) };
            let rd = |v: M::u128x4| by512(v.into());
            bitops0!(cells, be, "u128x4", mk, rd, a, b);
            rot32!(cells, be, "u128x4", mk, rd, a, 128);
            rot64!(cells, be, "u128x4", mk, rd, a, 128);
            swaps!(cells, be, "u128x4", mk, rd, a);
        }
    }
}

macro_rules! storebytes {
    ($cells:ident, $be:ident, $m:ident, $tn:expr, $ty:ty, $mk:ident, $rd:ident, $a:ident, $wbits:expr, $n:expr) => {{
        let cell = |op: &str| format!("C13:{}:{}:{}", $be, $tn, op);
        $cells.check(&cell("read_le"), || { let v: $ty = $m.read_le($a); $rd(v) }, $a.to_vec());
        $cells.check(&cell("read_be"), || { let v: $ty = $m.read_be($a); $rd(v) }, V::bswap($a, $wbits));
        $cells.check(&cell("write_le"), || { let mut o = [0xa5u8; $n]; $mk($a).write_le(&mut o); o.to_vec() }, $a.to_vec());
        $cells.check(&cell("write_be"), || { let mut o = [0xa5u8; $n]; $mk($a).write_be(&mut o); o.to_vec() }, V::bswap($a, $wbits));
        $cells.check(&cell("write_le(read_le)"), || { let v: $ty = $m.read_le($a); let mut o = [0u8; $n]; v.write_le(&mut o); o.to_vec() }, $a.to_vec());
        $cells.check(&cell("write_be(read_be)"), || { let v: $ty = $m.read_be($a); let mut o = [0u8; $n]; v.write_be(&mut o); o.to_vec() }, $a.to_vec());
        $cells.check(&cell("read_be(write_be)"), || { let mut o = [0u8; $n]; $mk($a).write_be(&mut o); let v: $ty = $m.read_be(&o); $rd(v) }, $a.to_vec());
    }};
}

/// C13: data movement relations on one operand set; element indices are enumerated.
#[inline(always)]
pub fn c13_cells<M: Machine>(m: M, be: &str, cells: &mut Cells, c: &VecCase) {
    let cellname = |t: &str, op: &str| format!("C13:{}:{}:{}", be, t, op);
    // ---------------- 128-bit
    {
        let a = &c.a.0[..16];
        let b = &c.b.0[..16];
        // u32x4
        {
            let mk = |x: &[u8]| -> M::u32x4 { m.unpack(st128(x)) };
            let rd = |v: M::u32x4| by128(v.into());
            let wa = w32(a);
            cells.check(&cellname("u32x4", "unpack/into"), || rd(mk(a)), a.to_vec());
            cells.check(&cellname("u32x4", "to_lanes"), || mk(a).to_lanes().to_vec(), wa.clone());
            cells.check(&cellname("u32x4", "from_lanes"), || rd(M::u32x4::from_lanes([wa[0], wa[1], wa[2], wa[3]])), a.to_vec());
            cells.check(&cellname("u32x4", "vec"), || { let v: M::u32x4 = m.vec([wa[0], wa[1], wa[2], wa[3]]); rd(v) }, a.to_vec());
            for k in 0..4u32 {
                cells.check(&cellname("u32x4", &format!("extract{}", k)), || mk(a).extract(k), wa[k as usize]);
                let mut e = wa.clone();
                e[k as usize] = c.w as u32;
                cells.check(&cellname("u32x4", &format!("insert{}", k)), || mk(a).insert(c.w as u32, k).to_lanes().to_vec(), e);
            }
            storebytes!(cells, be, m, "u32x4", M::u32x4, mk, rd, a, 32, 16);
        }
        // u64x2
        {
            let mk = |x: &[u8]| -> M::u64x2 { m.unpack(st128(x)) };
            let rd = |v: M::u64x2| by128(v.into());
            let wa = w64(a);
            cells.check(&cellname("u64x2", "unpack/into"), || rd(mk(a)), a.to_vec());
            cells.check(&cellname("u64x2", "to_lanes"), || mk(a).to_lanes().to_vec(), wa.clone());
            cells.check(&cellname("u64x2", "from_lanes"), || rd(M::u64x2::from_lanes([wa[0], wa[1]])), a.to_vec());
            cells.check(&cellname("u64x2", "vec"), || { let v: M::u64x2 = m.vec([wa[0], wa[1]]); rd(v) }, a.to_vec());
            for k in 0..2u32 {
                cells.check(&cellname("u64x2", &format!("extract{}", k)), || mk(a).extract(k), wa[k as usize]);
                let mut e = wa.clone();
                e[k as usize] = c.w;
                cells.check(&cellname("u64x2", &format!("insert{}", k)), || mk(a).insert(c.w, k).to_lanes().to_vec(), e);
            }
        }
        // u128x1
        {
            let mk = |x: &[u8]| -> M::u128x1 { m.unpack(st128(x)) };
            let rd = |v: M::u128x1| by128(v.into());
            let wa = w128(a);
            cells.check(&cellname("u128x1", "unpack/into"), || rd(mk(a)), a.to_vec());
            cells.check(&cellname("u128x1", "to_lanes"), || mk(a).to_lanes().to_vec(), wa.clone());
            cells.check(&cellname("u128x1", "from_lanes"), || rd(M::u128x1::from_lanes([wa[0]])), a.to_vec());
            cells.check(&cellname("u128x1", "vec"), || { let v: M::u128x1 = m.vec([wa[0]]); rd(v) }, a.to_vec());
        }
        // storage views
        {
            cells.check(&cellname("vec128_storage", "into[u64;2]"), || { let x: [u64; 2] = st128(a).into(); x.to_vec() }, w64(a));
            cells.check(&cellname("vec128_storage", "eq"), || st128(a) == st128(b), a == b);
            cells.check(&cellname("vec128_storage", "eq-self"), || st128(a) == st128(a), true);
            // operands differing in exactly one bit of one half (a comparison that looks at one half only would miss it)
            let mut hi = a.to_vec();
            hi[8 + (c.w as usize % 8)] ^= 1 << (c.w % 8);
            cells.check(&cellname("vec128_storage", "ne-upper-half"), || st128(a) == st128(&hi), false);
            let mut lo = a.to_vec();
            lo[c.w as usize % 8] ^= 1 << ((c.w >> 3) % 8);
            cells.check(&cellname("vec128_storage", "ne-lower-half"), || st128(a) == st128(&lo), false);
            cells.check(&cellname("vec128_storage", "default"), || by128(vec128_storage::default()), vec![0u8; 16]);
        }
    }
    // ---------------- 256-bit
    {
        let a = &c.a.0[..32];
        let b = &c.b.0[..32];
        // u32x4x2
        {
            let mk = |x: &[u8]| -> M::u32x4x2 { m.unpack(st256(x)) };
            let rd = |v: M::u32x4x2| by256(v.into());
            let lane = |x: &[u8]| -> M::u32x4 { m.unpack(st128(x)) };
            let rl = |v: M::u32x4| by128(v.into());
            cells.check(&cellname("u32x4x2", "unpack/into"), || rd(mk(a)), a.to_vec());
            cells.check(&cellname("u32x4x2", "to_lanes"), || { let l = mk(a).to_lanes(); [rl(l[0]), rl(l[1])].concat() }, a.to_vec());
            cells.check(&cellname("u32x4x2", "from_lanes"), || rd(M::u32x4x2::from_lanes([lane(&a[..16]), lane(&a[16..])])), a.to_vec());
            cells.check(&cellname("u32x4x2", "vzip"), || { let v: M::u32x4x2 = [lane(&a[..16]), lane(&a[16..])].vzip(); rd(v) }, a.to_vec());
            for k in 0..2usize {
                cells.check(&cellname("u32x4x2", &format!("extract{}", k)), || rl(mk(a).extract(k as u32)), a[16 * k..16 * k + 16].to_vec());
                let mut e = a.to_vec();
                e[16 * k..16 * k + 16].copy_from_slice(&b[..16]);
                cells.check(&cellname("u32x4x2", &format!("insert{}", k)), || rd(mk(a).insert(lane(&b[..16]), k as u32)), e);
            }
            storebytes!(cells, be, m, "u32x4x2", M::u32x4x2, mk, rd, a, 32, 32);
        }
        // u64x2x2
        {
            let mk = |x: &[u8]| -> M::u64x2x2 { m.unpack(st256(x)) };
            let rd = |v: M::u64x2x2| by256(v.into());
            let lane = |x: &[u8]| -> M::u64x2 { m.unpack(st128(x)) };
            let rl = |v: M::u64x2| by128(v.into());
            cells.check(&cellname("u64x2x2", "unpack/into"), || rd(mk(a)), a.to_vec());
            cells.check(&cellname("u64x2x2", "to_lanes"), || { let l = mk(a).to_lanes(); [rl(l[0]), rl(l[1])].concat() }, a.to_vec());
            cells.check(&cellname("u64x2x2", "from_lanes"), || rd(M::u64x2x2::from_lanes([lane(&a[..16]), lane(&a[16..])])), a.to_vec());
            for k in 0..2usize {
                cells.check(&cellname("u64x2x2", &format!("extract{}", k)), || rl(mk(a).extract(k as u32)), a[16 * k..16 * k + 16].to_vec());
                let mut e = a.to_vec();
                e[16 * k..16 * k + 16].copy_from_slice(&b[..16]);
                cells.check(&cellname("u64x2x2", &format!("insert{}", k)), || rd(mk(a).insert(lane(&b[..16]), k as u32)), e);
            }
            storebytes!(cells, be, m, "u64x2x2", M::u64x2x2, mk, rd, a, 64, 32);
        }
        // u64x4
        {
            let mk = |x: &[u8]| -> M::u64x4 { m.unpack(st256(x)) };
            let rd = |v: M::u64x4| by256(v.into());
            let wa = w64(a);
            cells.check(&cellname("u64x4", "unpack/into"), || rd(mk(a)), a.to_vec());
            cells.check(&cellname("u64x4", "to_lanes"), || mk(a).to_lanes().to_vec(), wa.clone());
            cells.check(&cellname("u64x4", "from_lanes"), || rd(M::u64x4::from_lanes([wa[0], wa[1], wa[2], wa[3]])), a.to_vec());
            cells.check(&cellname("u64x4", "vec"), || { let v: M::u64x4 = m.vec([wa[0], wa[1], wa[2], wa[3]]); rd(v) }, a.to_vec());
            for k in 0..4u32 {
                cells.check(&cellname("u64x4", &format!("extract{}", k)), || mk(a).extract(k), wa[k as usize]);
                let mut e = wa.clone();
                e[k as usize] = c.w;
                cells.check(&cellname("u64x4", &format!("insert{}", k)), || mk(a).insert(c.w, k).to_lanes().to_vec(), e);
            }
            storebytes!(cells, be, m, "u64x4", M::u64x4, mk, rd, a, 64, 32);
        }
        // u128x2
        {
            let mk = |x: &[u8]| -> M::u128x2 { m.unpack(st256(x)) };
            let rd = |v: M::u128x2| by256(v.into());
            let lane = |x: &[u8]| -> M::u128x1 { m.unpack(st128(x)) };
            let rl = |v: M::u128x1| by128(v.into());
            cells.check(&cellname("u128x2", "unpack/into"), || rd(mk(a)), a.to_vec());
            cells.check(&cellname("u128x2", "to_lanes"), || { let l = mk(a).to_lanes(); [rl(l[0]), rl(l[1])].concat() }, a.to_vec());
            cells.check(&cellname("u128x2", "from_lanes"), || rd(M::u128x2::from_lanes([lane(&a[..16]), lane(&a[16..])])), a.to_vec());
            cells.check(&cellname("u128x2", "vzip"), || { let v: M::u128x2 = [lane(&a[..16]), lane(&a[16..])].vzip(); rd(v) }, a.to_vec());
            for k in 0..2usize {
                cells.check(&cellname("u128x2", &format!("extract{}", k)), || rl(mk(a).extract(k as u32)), a[16 * k..16 * k + 16].to_vec());
                let mut e = a.to_vec();
                e[16 * k..16 * k + 16].copy_from_slice(&b[..16]);
                cells.check(&cellname("u128x2", &format!("insert{}", k)), || rd(mk(a).insert(lane(&b[..16]), k as u32)), e);
            }
        }
        // storage views
        {
            let wa = w64(a);
            cells.check(&cellname("vec256_storage", "from[u64;4]"), || by256([wa[0], wa[1], wa[2], wa[3]].into()), a.to_vec());
            cells.check(&cellname("vec256_storage", "into[u64;4]"), || { let x: [u64; 4] = st256(a).into(); x.to_vec() }, wa.clone());
            cells.check(&cellname("vec256_storage", "new128/split128"), || by256(st256(a)), a.to_vec());
            cells.check(&cellname("vec256_storage", "eq"), || st256(a) == st256(b), a == b);
            cells.check(&cellname("vec256_storage", "eq-self"), || st256(a) == st256(a), true);
            // differ only in the upper half (a comparison that looks at one half only would miss it)
            let mut a2 = a.to_vec();
            a2[16 + (c.w as usize % 16)] ^= 1 << (c.w % 8);
            cells.check(&cellname("vec256_storage", "ne-upper-half"), || st256(a) == st256(&a2), false);
            let mut a3 = a.to_vec();
            a3[c.w as usize % 16] ^= 1 << ((c.w >> 4) % 8);
            cells.check(&cellname("vec256_storage", "ne-lower-half"), || st256(a) == st256(&a3), false);
            cells.check(&cellname("vec256_storage", "default"), || by256(vec256_storage::default()), vec![0u8; 32]);
        }
    }
    // ---------------- 512-bit
    {
        let a = &c.a.0[..64];
        let b = &c.b.0[..64];
        // u32x4x4
        {
            let mk = |x: &[u8]| -> M::u32x4x4 { m.unpack(st512(x)) };
            let rd = |v: M::u32x4x4| by512(v.into());
            let lane = |x: &[u8]| -> M::u32x4 { m.unpack(st128(x)) };
            let rl = |v: M::u32x4| by128(v.into());
            cells.check(&cellname("u32x4x4", "unpack/into"), || rd(mk(a)), a.to_vec());
            cells.check(&cellname("u32x4x4", "to_lanes"), || { let l = mk(a).to_lanes(); [rl(l[0]), rl(l[1]), rl(l[2]), rl(l[3])].concat() }, a.to_vec());
            cells.check(&cellname("u32x4x4", "from_lanes"), || rd(M::u32x4x4::from_lanes([lane(&a[..16]), lane(&a[16..32]), lane(&a[32..48]), lane(&a[48..])])), a.to_vec());
            cells.check(&cellname("u32x4x4", "to_scalars"), || mk(a).to_scalars().to_vec(), w32(a));
            for k in 0..4usize {
                cells.check(&cellname("u32x4x4", &format!("extract{}", k)), || rl(mk(a).extract(k as u32)), a[16 * k..16 * k + 16].to_vec());
                let mut e = a.to_vec();
                e[16 * k..16 * k + 16].copy_from_slice(&b[..16]);
                cells.check(&cellname("u32x4x4", &format!("insert{}", k)), || rd(mk(a).insert(lane(&b[..16]), k as u32)), e);
            }
            let (cc, dd) = (&c.c.0[..64], &c.d.0[..64]);
            let want = V::transpose4([a, b, cc, dd]);
            cells.check(
                &cellname("u32x4x4", "transpose4"),
                || { let (p, q, r, s) = M::u32x4x4::transpose4(mk(a), mk(b), mk(cc), mk(dd)); vec![rd(p), rd(q), rd(r), rd(s)] },
                want.to_vec(),
            );
            storebytes!(cells, be, m, "u32x4x4", M::u32x4x4, mk, rd, a, 32, 64);
        }
        // u64x2x4
        {
            let mk = |x: &[u8]| -> M::u64x2x4 { m.unpack(st512(x)) };
            let rd = |v: M::u64x2x4| by512(v.into());
            let lane = |x: &[u8]| -> M::u64x2 { m.unpack(st128(x)) };
            let rl = |v: M::u64x2| by128(v.into());
            cells.check(&cellname("u64x2x4", "unpack/into"), || rd(mk(a)), a.to_vec());
            cells.check(&cellname("u64x2x4", "to_lanes"), || { let l = mk(a).to_lanes(); [rl(l[0]), rl(l[1]), rl(l[2]), rl(l[3])].concat() }, a.to_vec());
            cells.check(&cellname("u64x2x4", "from_lanes"), || rd(M::u64x2x4::from_lanes([lane(&a[..16]), lane(&a[16..32]), lane(&a[32..48]), lane(&a[48..])])), a.to_vec());
            for k in 0..4usize {
                cells.check(&cellname("u64x2x4", &format!("extract{}", k)), || rl(mk(a).extract(k as u32)), a[16 * k..16 * k + 16].to_vec());
                let mut e = a.to_vec();
                e[16 * k..16 * k + 16].copy_from_slice(&b[..16]);
                cells.check(&cellname("u64x2x4", &format!("insert{}", k)), || rd(mk(a).insert(lane(&b[..16]), k as u32)), e);
            }
        }
        // u128x4
        {
            let mk = |x: &[u8]| -> M::u128x4 { m.unpack(st512(x)) };
            let rd = |v: M::u128x4| by512(v.into());
            let lane = |x: &[u8]| -> M::u128x1 { m.unpack(st128(x)) };
            let rl = |v: M::u128x1| by128(v.into());
            cells.check(&cellname("u128x4", "unpack/into"), || rd(mk(a)), a.to_vec());
            cells.check(&cellname("u128x4", "to_lanes"), || { let l = mk(a).to_lanes(); [rl(l[0]), rl(l[1]), rl(l[2]), rl(l[3])].concat() }, a.to_vec());
            cells.check(&cellname("u128x4", "from_lanes"), || rd(M::u128x4::from_lanes([lane(&a[..16]), lane(&a[16..32]), lane(&a[32..48]), lane(&a[48..])])), a.to_vec());
            for k in 0..4usize {
                cells.check(&cellname("u128x4", &format!("extract{}", k)), || rl(mk(a).extract(k as u32)), a[16 * k..16 * k + 16].to_vec());
                let mut e = a.to_vec();
                e[16 * k..16 * k + 16].copy_from_slice(&b[..16]);
                cells.check(&cellname("u128x4", &format!("insert{}", k)), || rd(mk(a).insert(lane(&b[..16]), k as u32)), e);
            }
        }
        // storage
        {
            cells.check(&cellname("vec512_storage", "new128/split128"), || by512(st512(a)), a.to_vec());
            cells.check(&cellname("vec512_storage", "eq"), || st512(a) == st512(b), a == b);
            cells.check(&cellname("vec512_storage", "eq-self"), || st512(a) == st512(a), true);
            let mut a2 = a.to_vec();
            a2[16 * (1 + (c.w as usize >> 8) % 3) + (c.w as usize % 16)] ^= 1 << (c.w % 8);
            cells.check(&cellname("vec512_storage", "ne-upper-lanes"), || st512(a) == st512(&a2), false);
            let mut a3 = a.to_vec();
            a3[c.w as usize % 16] ^= 1 << ((c.w >> 4) % 8);
            cells.check(&cellname("vec512_storage", "ne-lowest-lane"), || st512(a) == st512(&a3), false);
            cells.check(&cellname("vec512_storage", "default"), || by512(vec512_storage::default()), vec![0u8; 64]);
        }
    }
    // back-end specific storage views
    storage_views(be, cells, c);
}

#[cfg(not(feature = "cfg-nosimd"))]
fn storage_views(be: &str, cells: &mut Cells, c: &VecCase) {
    let cellname = |t: &str, op: &str| format!("C13:{}:{}:{}", be, t, op);
    let a = &c.a.0[..64];
    cells.check(&cellname("vec128_storage", "into[u128;1]"), || { let x: [u128; 1] = st128(&a[..16]).into(); x.to_vec() }, w128(&a[..16]));
    cells.check(&cellname("vec256_storage", "into[u32;8]"), || { let x: [u32; 8] = st256(&a[..32]).into(); x.to_vec() }, w32(&a[..32]));
    cells.check(&cellname("vec256_storage", "into[u128;2]"), || { let x: [u128; 2] = st256(&a[..32]).into(); x.to_vec() }, w128(&a[..32]));
    cells.check(&cellname("vec512_storage", "into[u32;16]"), || { let x: [u32; 16] = st512(a).into(); x.to_vec() }, w32(a));
    cells.check(&cellname("vec512_storage", "into[u64;8]"), || { let x: [u64; 8] = st512(a).into(); x.to_vec() }, w64(a));
    cells.check(&cellname("vec512_storage", "into[u128;4]"), || { let x: [u128; 4] = st512(a).into(); x.to_vec() }, w128(a));
    cells.check(&cellname("vec128_storage", "ref-into-&[u32;4]"), || { let s = st128(&a[..16]); let r: &[u32; 4] = (&s).into(); r.to_vec() }, w32(&a[..16]));
}

#[cfg(feature = "cfg-nosimd")]
fn storage_views(be: &str, cells: &mut Cells, c: &VecCase) {
    let cellname = |t: &str, op: &str| format!("C13:{}:{}:{}", be, t, op);
    let a = &c.a.0[..16];
    let wa = w64(a);
    cells.check(&cellname("vec128_storage", "from[u64;2]"), || by128([wa[0], wa[1]].into()), a.to_vec());
}

// ---- instantiation per machine

#[cfg(not(feature = "cfg-nosimd"))]
mod inst {
    use super::*;
    use ppv_lite86::x86_64::{AVX, AVX2, SSE2, SSE41, SSSE3};

    macro_rules! wrappers {
        ($name:ident, $body:ident) => {
            pub mod $name {
                use super::*;
                #[target_feature(enable = "avx2")]
                pub unsafe fn avx2(cells: &mut Cells, c: &VecCase) { $body(AVX2::instance(), "avx2", cells, c) }
                #[target_feature(enable = "avx,sse4.1,ssse3")]
                pub unsafe fn avx(cells: &mut Cells, c: &VecCase) { $body(AVX::instance(), "avx", cells, c) }
                #[target_feature(enable = "sse4.1,ssse3")]
                pub unsafe fn sse41(cells: &mut Cells, c: &VecCase) { $body(SSE41::instance(), "sse41", cells, c) }
                #[target_feature(enable = "ssse3")]
                pub unsafe fn ssse3(cells: &mut Cells, c: &VecCase) { $body(SSSE3::instance(), "ssse3", cells, c) }
                pub unsafe fn sse2(cells: &mut Cells, c: &VecCase) { $body(SSE2::instance(), "sse2", cells, c) }
            }
        };
    }
    wrappers!(c12, c12_cells);
    wrappers!(c13, c13_cells);

    /// Conversions between the vector types of one back end (`Into`): they exist only on the concrete x86
    /// types (where-clauses of the Machine impls), so they are instantiated per concrete machine here.
    /// A conversion is a reinterpretation: the little-endian byte image must not change.
    macro_rules! conv_cells {
        ($M:ty, $be:expr, $cells:ident, $c:ident) => {{
            let m = unsafe { <$M>::instance() };
            let cell = |op: &str| format!("C13:{}:convert:{}", $be, op);
            let a = &$c.a.0;
            {
                let x: <$M as Machine>::u128x1 = m.unpack(st128(&a[..16]));
                $cells.check(&cell("u128x1->u32x4"), || { let y: <$M as Machine>::u32x4 = x.into(); by128(y.into()) }, a[..16].to_vec());
                $cells.check(&cell("u128x1->u64x2"), || { let y: <$M as Machine>::u64x2 = x.into(); by128(y.into()) }, a[..16].to_vec());
            }
            {
                let x: <$M as Machine>::u128x2 = m.unpack(st256(&a[..32]));
                $cells.check(&cell("u128x2->u32x4x2"), || { let y: <$M as Machine>::u32x4x2 = x.into(); by256(y.into()) }, a[..32].to_vec());
                $cells.check(&cell("u128x2->u64x2x2"), || { let y: <$M as Machine>::u64x2x2 = x.into(); by256(y.into()) }, a[..32].to_vec());
                $cells.check(&cell("u128x2->u64x4"), || { let y: <$M as Machine>::u64x4 = x.into(); by256(y.into()) }, a[..32].to_vec());
            }
            {
                let x: <$M as Machine>::u128x4 = m.unpack(st512(&a[..64]));
                $cells.check(&cell("u128x4->u32x4x4"), || { let y: <$M as Machine>::u32x4x4 = x.into(); by512(y.into()) }, a[..64].to_vec());
                $cells.check(&cell("u128x4->u64x2x4"), || { let y: <$M as Machine>::u64x2x4 = x.into(); by512(y.into()) }, a[..64].to_vec());
            }
        }};
    }

    pub fn conversions(level: &str, cells: &mut Cells, c: &VecCase) {
        match level {
            "sse2" => conv_cells!(SSE2, "sse2", cells, c),
            "ssse3" => conv_cells!(SSSE3, "ssse3", cells, c),
            "sse41" => conv_cells!(SSE41, "sse41", cells, c),
            "avx" => conv_cells!(AVX, "avx", cells, c),
            _ => conv_cells!(AVX2, "avx2", cells, c),
        }
    }

    pub fn run(prop: &str, level: &str, cells: &mut Cells, c: &VecCase) -> Result<(), String> {
        let ok = match level {
            "sse2" => true,
            "ssse3" => std::is_x86_feature_detected!("ssse3"),
            "sse41" => std::is_x86_feature_detected!("sse4.1"),
            "avx" => std::is_x86_feature_detected!("avx"),
            "avx2" => std::is_x86_feature_detected!("avx2"),
            _ => return Err(format!("unknown back end {}", level)),
        };
        if !ok {
            return Err(format!("host cannot execute back end {}", level));
        }
        unsafe {
            match (prop, level) {
                ("C12", "sse2") => c12::sse2(cells, c),
                ("C12", "ssse3") => c12::ssse3(cells, c),
                ("C12", "sse41") => c12::sse41(cells, c),
                ("C12", "avx") => c12::avx(cells, c),
                ("C12", "avx2") => c12::avx2(cells, c),
                ("C13", "sse2") => c13::sse2(cells, c),
                ("C13", "ssse3") => c13::ssse3(cells, c),
                ("C13", "sse41") => c13::sse41(cells, c),
                ("C13", "avx") => c13::avx(cells, c),
                ("C13", "avx2") => c13::avx2(cells, c),
                _ => return Err("bad prop".into()),
            }
        }
        if prop == "C13" {
            conversions(level, cells, c);
        }
        Ok(())
    }
    pub const BACKENDS: [&str; 5] = ["sse2", "ssse3", "sse41", "avx", "avx2"];
}

#[cfg(feature = "cfg-nosimd")]
mod inst {
    use super::*;
    use ppv_lite86::generic::GenericMachine;
    pub fn run(prop: &str, _level: &str, cells: &mut Cells, c: &VecCase) -> Result<(), String> {
        let m = unsafe { GenericMachine::instance() };
        match prop {
            "C12" => c12_cells(m, "portable", cells, c),
            "C13" => c13_cells(m, "portable", cells, c),
            _ => return Err("bad prop".into()),
        }
        Ok(())
    }
    pub const BACKENDS: [&str; 1] = ["portable"];
}

pub fn vec_check(prop: &str, backend: &str, known: &[String], c: &VecCase, info: &mut CaseInfo) -> Result<(), Fail> {
    let mut cells = Cells::new(known, info);
    if let Err(e) = inst::run(prop, backend, &mut cells, c) {
        return Err(Fail::new("HARNESS:backend", e));
    }
    // non-trivial: operand not all-zero (results of non-identity ops then differ from the operand)
    let nz = c.a.0.iter().any(|x| *x != 0);
    cells.info.nontrivial = nz;
    cells.info.label(format!("backend {}", backend));
    cells.finish()
}

fn run_vec(ctx: &mut Ctx, prop: &'static str, quick: u32, thorough: u32) {
    let known = ctx.known.clone();
    // the worker's --level selects the back end; "host" runs all of them one after the other
    let backends: Vec<String> = if ctx.level == "host" || ctx.level.is_empty() {
        inst::BACKENDS.iter().map(|s| s.to_string()).collect()
    } else {
        vec![ctx.level.clone()]
    };
    for be in backends {
        let n = ctx.count(quick, thorough);
        let k = known.clone();
        let be2 = be.clone();
        ctx.run(&format!("cells/{}", be), n, vec_strategy(), move |c, i| vec_check(prop, &be2, &k, c, i));
    }
}

pub fn run_c12(ctx: &mut Ctx) {
    run_vec(ctx, "C12", 160_000, 1_000_000);
    // chained form: straight-line programs over 512-bit registers on every back end of this build
    // (run once per build configuration, by the worker that is not pinned to one back end)
    if ctx.level == "host" || ctx.level.is_empty() {
        let known = ctx.known.clone();
        let n = ctx.count(150_000, 1_500_000);
        ctx.run("program", n, crate::props::vecprog::vprog_strategy(24), move |p, i| crate::props::vecprog::vprog_check("C12", &known, p, i));
    }
}
pub fn run_c13(ctx: &mut Ctx) {
    run_vec(ctx, "C13", 220_000, 3_000_000);
}
