//! C16: byte-slice APIs give the same result for every buffer placement and stay inside their
//! buffers. Slices are placed in an mmap arena so that they end on the last byte before a
//! PROT_NONE page, start on the first byte after one, or sit at every alignment 0..63 between
//! canaries. An access outside the slice on the guarded side kills the worker (SIGSEGV); the
//! driver identifies the case from the progress file and replays it in a fresh process.

use crate::engine::{guard, CaseInfo, Ctx, Fail};
use crate::gen;
use crate::props::{chacha_stream, hashes};
use cipher::generic_array::GenericArray;
use cipher::{BlockDecrypt, BlockEncrypt, NewBlockCipher};
use proptest::prelude::*;
use serde::{Deserialize, Serialize};

const PAGE: usize = 4096;
const DATA_PAGES: usize = 6;

/// guard page | `pages` data pages | guard page
pub struct Arena {
    base: *mut u8,
    pages: usize,
}

impl Arena {
    pub fn new() -> Arena {
        Arena::with_pages(DATA_PAGES)
    }
    pub fn with_pages(pages: usize) -> Arena {
        unsafe {
            let total = (pages + 2) * PAGE;
            let p = libc::mmap(std::ptr::null_mut(), total, libc::PROT_READ | libc::PROT_WRITE, libc::MAP_PRIVATE | libc::MAP_ANONYMOUS, -1, 0);
            assert!(p != libc::MAP_FAILED, "mmap failed");
            let base = p as *mut u8;
            assert_eq!(libc::mprotect(base as *mut libc::c_void, PAGE, libc::PROT_NONE), 0);
            assert_eq!(libc::mprotect(base.add((pages + 1) * PAGE) as *mut libc::c_void, PAGE, libc::PROT_NONE), 0);
            Arena { base, pages }
        }
    }
    pub fn data(&self) -> &mut [u8] {
        unsafe { std::slice::from_raw_parts_mut(self.base.add(PAGE), self.pages * PAGE) }
    }
}

impl Drop for Arena {
    fn drop(&mut self) {
        unsafe {
            libc::munmap(self.base as *mut libc::c_void, (self.pages + 2) * PAGE);
        }
    }
}

#[derive(Clone, Copy, Debug, Serialize, Deserialize, PartialEq, Eq)]
pub enum Placement {
    /// slice ends on the last mapped byte (an over-read/over-write faults)
    EndAtGuard,
    /// slice starts on the first mapped byte (an under-read/under-write faults)
    StartAfterGuard,
    /// start address = 64-byte boundary + k, canaries on both sides
    Interior(u8),
    /// a page boundary inside mapped memory falls k+1 bytes after the slice start (code that treats
    /// page-crossing loads specially)
    AcrossPage(u8),
}

/// Where the buffers of one call live.
pub trait Mem {
    /// a zeroed buffer of `len` bytes for slot `id` (0..3)
    fn slot(&mut self, id: usize, len: usize) -> &mut [u8];
}

pub struct PlainMem {
    bufs: Vec<Vec<u64>>,
}
impl PlainMem {
    pub fn new() -> PlainMem {
        PlainMem { bufs: (0..4).map(|_| Vec::new()).collect() }
    }
}
impl Mem for PlainMem {
    fn slot(&mut self, id: usize, len: usize) -> &mut [u8] {
        // u64-backed: an ordinary 8-byte aligned heap buffer
        self.bufs[id] = vec![0u64; len / 8 + 1];
        let p = self.bufs[id].as_mut_ptr() as *mut u8;
        unsafe { std::slice::from_raw_parts_mut(p, len) }
    }
}

pub struct ArenaMem {
    arenas: Vec<Arena>,
    placement: Placement,
    used: Vec<Option<(usize, usize)>>,
}
const CANARY: u8 = 0xc5;
impl ArenaMem {
    pub fn new(placement: Placement) -> ArenaMem {
        let arenas: Vec<Arena> = (0..4).map(|_| Arena::new()).collect();
        for a in &arenas {
            for b in a.data().iter_mut() {
                *b = CANARY;
            }
        }
        ArenaMem { arenas, placement, used: vec![None; 4] }
    }
    /// every byte of the data regions outside the handed-out slices still holds the canary?
    pub fn canaries_intact(&self) -> Result<(), String> {
        for (id, a) in self.arenas.iter().enumerate() {
            let d = a.data();
            let (s, e) = self.used[id].unwrap_or((0, 0));
            for (i, b) in d.iter().enumerate() {
                if (i < s || i >= e) && *b != CANARY {
                    return Err(format!("slot {}: byte at offset {} relative to the slice start was overwritten", id, i as i64 - s as i64));
                }
            }
        }
        Ok(())
    }
}
impl Mem for ArenaMem {
    fn slot(&mut self, id: usize, len: usize) -> &mut [u8] {
        if len + 4 * PAGE > DATA_PAGES * PAGE {
            // long inputs: an arena of their own size (same layout: guard page on both sides, canaries around the slice)
            let a = Arena::with_pages(len / PAGE + 5);
            for b in a.data().iter_mut() {
                *b = CANARY;
            }
            self.arenas[id] = a;
        }
        let total = self.arenas[id].data().len();
        assert!(len + 128 <= total);
        let start = match self.placement {
            Placement::EndAtGuard => total - len,
            Placement::StartAfterGuard => 0,
            Placement::Interior(k) => PAGE + 64 + (k as usize % 64),
            Placement::AcrossPage(k) => 2 * PAGE - (1 + k as usize).min(len.saturating_sub(1)),
        };
        self.used[id] = Some((start, start + len));
        let d = self.arenas[id].data();
        for b in d[start..start + len].iter_mut() {
            *b = 0;
        }
        &mut d[start..start + len]
    }
}

#[derive(Clone, Debug, Serialize, Deserialize, PartialEq, Eq)]
pub enum Api {
    CipherApply(usize),
    CipherNew(usize),
    HashUpdate(String),
    HashFinalizeInto(String),
    TfEncrypt(u16),
    TfDecrypt(u16),
    GutsNew(u8),
    GutsRefill,
    GutsRefill4,
    JhInput,
    /// (back end, vector type, op) with op in read_le, read_be, write_le, write_be
    VecIo(String, String, String),
    /// as VecIo, but the slice is `delta` bytes longer/shorter than the vector: the call has to be
    /// rejected (panic) or stay inside the slice - it must never touch memory outside it
    VecIoLen(String, String, String, i8),
}

impl Api {
    pub fn variable_length(&self) -> bool {
        matches!(self, Api::CipherApply(_) | Api::HashUpdate(_))
    }
}

#[derive(Clone, Debug, Serialize, Deserialize)]
pub struct AlignCase {
    pub api: Api,
    pub placement: Placement,
    pub len: usize,
    pub seed: u64,
}

pub const VEC_TYPES: [(&str, usize); 5] = [("u32x4", 16), ("u32x4x2", 32), ("u64x2x2", 32), ("u64x4", 32), ("u32x4x4", 64)];
pub const VEC_OPS: [&str; 4] = ["read_le", "read_be", "write_le", "write_be"];

#[cfg(not(feature = "cfg-nosimd"))]
pub const VEC_BACKENDS: [&str; 5] = ["sse2", "ssse3", "sse41", "avx", "avx2"];
#[cfg(feature = "cfg-nosimd")]
pub const VEC_BACKENDS: [&str; 1] = ["portable"];

mod vecio {
    use super::*;
    use crate::props::vecs::{by128, by256, by512, st128, st256, st512};
    use ppv_lite86::*;

    #[inline(always)]
    pub fn io<M: Machine>(m: M, ty: &str, op: &str, data: &[u8], mem: &mut dyn Mem, delta: i32) -> Vec<u8> {
        macro_rules! go {
            ($t:ty, $n:expr, $st:ident, $by:ident) => {{
                let slen = ($n as i32 + delta).max(0) as usize;
                match op {
                    "read_le" | "read_be" => {
                        let s = mem.slot(0, slen);
                        s.copy_from_slice(&data[..slen]);
                        let v: $t = if op == "read_le" { m.read_le(&*s) } else { m.read_be(&*s) };
                        $by(v.into())
                    }
                    _ => {
                        let v: $t = m.unpack($st(&data[..$n]));
                        let s = mem.slot(0, slen);
                        if op == "write_le" { v.write_le(s) } else { v.write_be(s) }
                        s.to_vec()
                    }
                }
            }};
        }
        match ty {
            "u32x4" => go!(M::u32x4, 16, st128, by128),
            "u32x4x2" => go!(M::u32x4x2, 32, st256, by256),
            "u64x2x2" => go!(M::u64x2x2, 32, st256, by256),
            "u64x4" => go!(M::u64x4, 32, st256, by256),
            "u32x4x4" => go!(M::u32x4x4, 64, st512, by512),
            _ => panic!("HARNESS: unknown vector type"),
        }
    }

    #[cfg(not(feature = "cfg-nosimd"))]
    pub fn dispatch(be: &str, ty: &str, op: &str, data: &[u8], mem: &mut dyn Mem, delta: i32) -> Vec<u8> {
        use ppv_lite86::x86_64::{AVX, AVX2, SSE2, SSE41, SSSE3};
        #[target_feature(enable = "avx2")]
        unsafe fn avx2(ty: &str, op: &str, d: &[u8], mem: &mut dyn Mem, dl: i32) -> Vec<u8> { io(AVX2::instance(), ty, op, d, mem, dl) }
        #[target_feature(enable = "avx,sse4.1,ssse3")]
        unsafe fn avx(ty: &str, op: &str, d: &[u8], mem: &mut dyn Mem, dl: i32) -> Vec<u8> { io(AVX::instance(), ty, op, d, mem, dl) }
        #[target_feature(enable = "sse4.1,ssse3")]
        unsafe fn sse41(ty: &str, op: &str, d: &[u8], mem: &mut dyn Mem, dl: i32) -> Vec<u8> { io(SSE41::instance(), ty, op, d, mem, dl) }
        #[target_feature(enable = "ssse3")]
        unsafe fn ssse3(ty: &str, op: &str, d: &[u8], mem: &mut dyn Mem, dl: i32) -> Vec<u8> { io(SSSE3::instance(), ty, op, d, mem, dl) }
        unsafe fn sse2(ty: &str, op: &str, d: &[u8], mem: &mut dyn Mem, dl: i32) -> Vec<u8> { io(SSE2::instance(), ty, op, d, mem, dl) }
        unsafe {
            match be {
                "sse2" => sse2(ty, op, data, mem, delta),
                "ssse3" => ssse3(ty, op, data, mem, delta),
                "sse41" => sse41(ty, op, data, mem, delta),
                "avx" => avx(ty, op, data, mem, delta),
                "avx2" => avx2(ty, op, data, mem, delta),
                _ => panic!("HARNESS: unknown back end"),
            }
        }
    }
    #[cfg(feature = "cfg-nosimd")]
    pub fn dispatch(_be: &str, ty: &str, op: &str, data: &[u8], mem: &mut dyn Mem, delta: i32) -> Vec<u8> {
        io(unsafe { ppv_lite86::generic::GenericMachine::instance() }, ty, op, data, mem, delta)
    }
}

/// Execute the API with its byte buffers taken from `mem`; returns everything observable.
pub fn exec(c: &AlignCase, mem: &mut dyn Mem) -> Vec<u8> {
    let data = gen::expand(c.seed, c.len.max(256), 0);
    // hashing: the bytes absorbed before the placed slice leave the buffer at every fill level
    let pending = (c.seed % 150) as usize;
    let key = gen::expand(c.seed ^ 0x11, 128, 0);
    match &c.api {
        Api::CipherApply(v) => {
            let nl = crate::refmodels::chacha::VARIANTS[*v].nonce_len();
            let mut ci = chacha_stream::make_cipher_at(*v, &key[..32], &key[32..32 + nl]);
            // vary the buffered state a little as well
            let mut pre = vec![0u8; (c.seed % 70) as usize];
            ci.try_apply(&mut pre).unwrap();
            let s = mem.slot(0, c.len);
            s.copy_from_slice(&data[..c.len]);
            ci.try_apply(s).unwrap();
            s.to_vec()
        }
        Api::CipherNew(v) => {
            let nl = crate::refmodels::chacha::VARIANTS[*v].nonce_len();
            let k = mem.slot(0, 32);
            k.copy_from_slice(&key[..32]);
            let k: &[u8] = unsafe { std::slice::from_raw_parts(k.as_ptr(), 32) };
            let n = mem.slot(1, nl);
            n.copy_from_slice(&key[32..32 + nl]);
            let mut ci = chacha_stream::make_cipher_at(*v, k, n);
            let mut out = vec![0u8; 100];
            ci.try_apply(&mut out).unwrap();
            out
        }
        Api::HashUpdate(name) => {
            let specs = hashes::c08_hashes();
            let spec = specs.iter().find(|s| &s.name == name).expect("HARNESS: hash");
            let mut h = (spec.make)();
            h.update(&data[..pending.min(data.len())]);
            let s = mem.slot(0, c.len);
            s.copy_from_slice(&data[..c.len]);
            h.update(s);
            h.finalize_box()
        }
        Api::HashFinalizeInto(name) => {
            use digest::FixedOutput;
            macro_rules! fin {
                ($t:ty) => {{
                    let mut h = <$t as Default>::default();
                    digest::Update::update(&mut h, &data[..c.len.min(200)]);
                    let n = <<$t as FixedOutput>::OutputSize as digest::generic_array::typenum::Unsigned>::USIZE;
                    let s = mem.slot(0, n);
                    h.finalize_into(digest::generic_array::GenericArray::from_mut_slice(s));
                    s.to_vec()
                }};
            }
            use digest::generic_array::typenum::{U128, U32, U33, U64};
            match name.as_str() {
                "Blake224" => fin!(blake_hash::Blake224),
                "Blake256" => fin!(blake_hash::Blake256),
                "Blake384" => fin!(blake_hash::Blake384),
                "Blake512" => fin!(blake_hash::Blake512),
                "Groestl224" => fin!(groestl_aesni::Groestl224),
                "Groestl256" => fin!(groestl_aesni::Groestl256),
                "Groestl384" => fin!(groestl_aesni::Groestl384),
                "Groestl512" => fin!(groestl_aesni::Groestl512),
                "Jh224" => fin!(jh_x86_64::Jh224),
                "Jh256" => fin!(jh_x86_64::Jh256),
                "Jh384" => fin!(jh_x86_64::Jh384),
                "Jh512" => fin!(jh_x86_64::Jh512),
                "Skein256<32>" => fin!(skein_hash::Skein256<U32>),
                "Skein256<33>" => fin!(skein_hash::Skein256<U33>),
                "Skein512<64>" => fin!(skein_hash::Skein512<U64>),
                "Skein1024<128>" => fin!(skein_hash::Skein1024<U128>),
                _ => panic!("HARNESS: finalize_into type"),
            }
        }
        Api::TfEncrypt(bits) | Api::TfDecrypt(bits) => {
            let dec = matches!(c.api, Api::TfDecrypt(_));
            let n = *bits as usize / 8;
            macro_rules! tf {
                ($t:ty) => {{
                    let k = mem.slot(0, n);
                    k.copy_from_slice(&key[..n]);
                    let k: &[u8] = unsafe { std::slice::from_raw_parts(k.as_ptr(), n) };
                    let f = if c.seed & 1 == 0 { <$t>::new(GenericArray::from_slice(k)) } else { <$t>::with_tweak(GenericArray::from_slice(k), c.seed, !c.seed) };
                    let b = mem.slot(1, n);
                    b.copy_from_slice(&data[..n]);
                    let ga = GenericArray::from_mut_slice(b);
                    if dec { f.decrypt_block(ga) } else { f.encrypt_block(ga) }
                    b.to_vec()
                }};
            }
            match bits {
                256 => tf!(threefish_cipher::Threefish256),
                512 => tf!(threefish_cipher::Threefish512),
                _ => tf!(threefish_cipher::Threefish1024),
            }
        }
        Api::GutsNew(nl) => {
            let k = mem.slot(0, 32);
            k.copy_from_slice(&key[..32]);
            let k: &[u8; 32] = unsafe { &*(k.as_ptr() as *const [u8; 32]) };
            let n = mem.slot(1, *nl as usize);
            n.copy_from_slice(&key[32..32 + *nl as usize]);
            let mut st = c2_chacha::guts::ChaCha::new(k, n);
            let mut out = [0u8; 64];
            st.refill(10, &mut out);
            out.to_vec()
        }
        Api::GutsRefill | Api::GutsRefill4 => {
            let mut k = [0u8; 32];
            k.copy_from_slice(&key[..32]);
            let mut st = c2_chacha::guts::ChaCha::new(&k, &key[32..44]);
            st.set_stream_param(0, c.seed | 0xffff_fffd);
            if matches!(c.api, Api::GutsRefill) {
                let s = mem.slot(0, 64);
                let a: &mut [u8; 64] = unsafe { &mut *(s.as_mut_ptr() as *mut [u8; 64]) };
                st.refill(10, a);
                s.to_vec()
            } else {
                let s = mem.slot(0, 256);
                let a: &mut [u8; 256] = unsafe { &mut *(s.as_mut_ptr() as *mut [u8; 256]) };
                st.refill4(10, a);
                s.to_vec()
            }
        }
        Api::JhInput => {
            let mut st = [0u8; 128];
            st.copy_from_slice(&key[..128]);
            let mut comp = jh_x86_64::compressor::Compressor::new(st);
            let s = mem.slot(0, 64);
            s.copy_from_slice(&data[..64]);
            comp.input(digest::generic_array::GenericArray::from_slice(s));
            comp.finalize().to_vec()
        }
        Api::VecIo(be, ty, op) => vecio::dispatch(be, ty, op, &data, mem, 0),
        Api::VecIoLen(be, ty, op, delta) => vecio::dispatch(be, ty, op, &data, mem, *delta as i32),
    }
}

pub fn align_check(c: &AlignCase, info: &mut CaseInfo) -> Result<(), Fail> {
    let apiname = match &c.api {
        Api::VecIo(be, ty, op) => format!("VecIo:{}:{}:{}", be, ty, op),
        Api::VecIoLen(be, ty, op, _) => format!("VecIoLen:{}:{}:{}", be, ty, op),
        other => format!("{:?}", other),
    };
    let fail = |kind: &str, d: String| Fail::new(format!("C16:{}:{}", apiname, kind), d);
    let mut plain = PlainMem::new();
    let wrong_len = matches!(c.api, Api::VecIoLen(..));
    let want = guard(|| exec(c, &mut plain));
    let mut am = ArenaMem::new(c.placement);
    let got = guard(|| exec(c, &mut am));
    if wrong_len {
        // a slice of the wrong size: rejection (panic) is the accepted outcome, identically for every
        // placement; what must never happen is an access outside the slice (guard page / canaries)
        info.label("api VecIo with a slice of the wrong length");
        info.label_if(matches!(c.placement, Placement::EndAtGuard), "slice ends at an unmapped page");
        info.label_if(matches!(c.placement, Placement::StartAfterGuard), "slice starts after an unmapped page");
        info.nontrivial = true;
        am.canaries_intact().map_err(|e| fail("OUTSIDE-WRITE", format!("{:?}: {}", c.placement, e)))?;
        return match (want, got) {
            (Err(_), Err(_)) => Ok(()),
            (Ok(w), Ok(g)) if w == g => Ok(()),
            (w, g) => Err(fail("DIFFERS", format!("{:?}: outcome on the placed slice ({}) differs from the ordinary buffer ({})", c.placement,
                if g.is_ok() { "returned" } else { "panicked" }, if w.is_ok() { "returned" } else { "panicked" }))),
        };
    }
    let want = want.map_err(|p| fail("PLAIN-PANIC", format!("call on an ordinary buffer panicked: {}", p)))?;
    match c.placement {
        Placement::EndAtGuard => info.label("slice ends at an unmapped page"),
        Placement::StartAfterGuard => info.label("slice starts after an unmapped page"),
        Placement::Interior(k) => {
            info.label(format!("alignment {}", k % 64));
            info.label_if(k % 16 != 0, "not 16-byte aligned");
        }
        Placement::AcrossPage(_) => info.label("slice straddles a page boundary"),
    }
    info.label(match &c.api {
        Api::VecIo(..) | Api::VecIoLen(..) => "api VecIo".to_string(),
        Api::HashUpdate(_) => "api HashUpdate".to_string(),
        Api::HashFinalizeInto(_) => "api HashFinalizeInto".to_string(),
        Api::CipherApply(_) => "api CipherApply".to_string(),
        Api::CipherNew(_) => "api CipherNew".to_string(),
        other => format!("api {:?}", other),
    });
    info.nontrivial = c.len >= 1 && !matches!(c.placement, Placement::Interior(k) if k % 16 == 0);
    info.label_if(c.len >= 4096, "length >= 4096");
    info.label_if(c.len >= 65_536, "length >= 64 KiB in one call");
    match got {
        Err(p) => Err(fail("PANIC", format!("{:?} len {}: {}", c.placement, c.len, p))),
        Ok(g) => {
            if g != want {
                return Err(fail("DIFFERS", format!("{:?} len {}: result differs from the result on an ordinary buffer", c.placement, c.len)));
            }
            am.canaries_intact().map_err(|e| fail("OUTSIDE-WRITE", format!("{:?} len {}: {}", c.placement, c.len, e)))
        }
    }
}

pub fn all_apis() -> Vec<Api> {
    let mut v = Vec::new();
    for i in 0..7 {
        v.push(Api::CipherApply(i));
        v.push(Api::CipherNew(i));
    }
    for h in hashes::c08_hashes() {
        v.push(Api::HashUpdate(h.name.clone()));
        if h.name != "Skein1024<200>" {
            v.push(Api::HashFinalizeInto(h.name.clone()));
        }
    }
    for b in [256u16, 512, 1024] {
        v.push(Api::TfEncrypt(b));
        v.push(Api::TfDecrypt(b));
    }
    v.push(Api::GutsNew(8));
    v.push(Api::GutsNew(12));
    v.push(Api::GutsRefill);
    v.push(Api::GutsRefill4);
    v.push(Api::JhInput);
    for be in VEC_BACKENDS {
        for (ty, _) in VEC_TYPES {
            for op in VEC_OPS {
                v.push(Api::VecIo(be.to_string(), ty.to_string(), op.to_string()));
            }
        }
    }
    v
}

const LENS: [usize; 20] = [1, 2, 15, 16, 17, 31, 63, 64, 65, 127, 128, 129, 255, 256, 257, 1000, 4096, 4109, 8192, 12_301];

pub fn run_c16(ctx: &mut Ctx) {
    let apis = all_apis();
    // exhaustive: every API x every start alignment 0..63 + both guard placements
    let mut cases = Vec::new();
    let mut s = ctx.seed ^ 0xa11c;
    for api in &apis {
        let lens: Vec<usize> = if api.variable_length() {
            // three lengths per placement, rotating through the boundary list
            LENS.to_vec()
        } else {
            vec![64]
        };
        let mut li = 0usize;
        for p in (0..64u8).map(Placement::Interior).chain((0..64u8).map(Placement::AcrossPage)).chain([Placement::EndAtGuard, Placement::StartAfterGuard]) {
            let n = if api.variable_length() { if matches!(p, Placement::Interior(_) | Placement::AcrossPage(_)) { 3 } else { lens.len() } } else { 1 };
            for _ in 0..n {
                let len = lens[li % lens.len()];
                li += 1;
                cases.push(AlignCase { api: api.clone(), placement: p, len, seed: crate::engine::splitmix(&mut s) });
            }
        }
    }
    // slices of the wrong length for the vector byte I/O (must be rejected or stay in bounds)
    for be in VEC_BACKENDS {
        for (ty, _) in VEC_TYPES {
            for op in VEC_OPS {
                for delta in [-16i8, -9, -1, 1, 16] {
                    for p in [Placement::EndAtGuard, Placement::StartAfterGuard, Placement::Interior(3)] {
                        cases.push(AlignCase { api: Api::VecIoLen(be.to_string(), ty.to_string(), op.to_string(), delta), placement: p, len: 64, seed: crate::engine::splitmix(&mut s) });
                    }
                }
            }
        }
    }
    // long inputs: bulk paths (wide loops, streaming stores, block runs taken straight from the caller's slice) only start
    // at some size - every variable-length API with 64 KiB .. 1.3 MiB in one call, at aligned and unaligned starts and
    // against both guard pages, after a short first call that leaves the object's buffer partly filled
    let mut long = Vec::new();
    let long_lens = [65_536 + 17usize, 262_144, (1 << 20) + 256, 1_300_001];
    let mut li = 0usize;
    for api in apis.iter().filter(|a| a.variable_length()) {
        for p in [Placement::Interior(0), Placement::Interior(16), Placement::Interior(1), Placement::Interior(40), Placement::StartAfterGuard, Placement::EndAtGuard, Placement::AcrossPage(7)] {
            li += 1;
            // the full list only in the full-scale workers; the others take every third case
            if ctx.scale < 0.9 && li % 3 != 0 {
                continue;
            }
            long.push(AlignCase { api: api.clone(), placement: p, len: long_lens[li % long_lens.len()], seed: crate::engine::splitmix(&mut s) });
        }
    }
    ctx.run_list("long-inputs", long, align_check);
    ctx.exhaustive_dimensions.push(format!("C16: {} APIs x start alignments 0..63 x {{interior, ends at guard page, starts after guard page}}", apis.len()));
    ctx.run_list("placement-sweep", cases, align_check);
    // generated: random (api, placement, length, content)
    let apis2 = apis.clone();
    let strat = (0..apis.len(), prop_oneof![4 => (0u8..64).prop_map(Placement::Interior), 3 => Just(Placement::EndAtGuard), 2 => Just(Placement::StartAfterGuard),
            2 => (0u8..64).prop_map(Placement::AcrossPage)],
        prop_oneof![6 => 1usize..1200, 4 => (0usize..LENS.len()).prop_map(|i| LENS[i]), 2 => 1usize..4000, 1 => 4000usize..16_000], any::<u64>())
        .prop_map(move |(a, placement, len, seed)| {
            let api = apis2[a].clone();
            let len = if api.variable_length() { len } else { 64 };
            AlignCase { api, placement, len, seed }
        });
    let n = ctx.count(100_000, 1_000_000);
    ctx.run("random-placements", n, strat, align_check);
    ctx.required_classes.push("slice ends at an unmapped page".into());
    ctx.required_classes.push("slice starts after an unmapped page".into());
    ctx.required_classes.push("not 16-byte aligned".into());
    ctx.required_classes.push("slice straddles a page boundary".into());
    ctx.required_classes.push("length >= 64 KiB in one call".into());
}
