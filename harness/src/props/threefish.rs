//! C09, C10: Threefish-256/512/1024 against the reference cipher, both directions.

use crate::engine::{guard, CaseInfo, Ctx, Fail};
use crate::gen::{bytes_n, HexBytes};
use crate::refmodels::skein::{threefish_decrypt, threefish_encrypt, unwords, words};
use cipher::generic_array::GenericArray;
use cipher::{BlockDecrypt, BlockEncrypt, NewBlockCipher};
use proptest::prelude::*;
use serde::{Deserialize, Serialize};
use threefish_cipher::{Threefish1024, Threefish256, Threefish512};

#[derive(Clone, Debug, Serialize, Deserialize)]
pub struct TfCase {
    pub bits: u16,
    pub key: HexBytes,
    pub tweak: (u64, u64),
    pub block: HexBytes,
    /// construct with `new` (tweak must be 0,0) instead of `with_tweak`
    pub via_new: bool,
    /// byte offsets (0..7) of the key and of the block inside 8-byte aligned buffers
    #[serde(default)]
    pub offs: (u8, u8),
    /// number of blocks pushed through the slice API encrypt_blocks / decrypt_blocks (0 = not used)
    #[serde(default)]
    pub nblocks: u16,
    /// before the cipher under test is built, another cipher is built from a *related* key (0 = none,
    /// 1 = two key words swapped: same word-xor; 2 = same key, other tweak; 3 = one key word changed) and used
    /// once: a later, unrelated object must not see anything of it
    #[serde(default)]
    pub decoy: u8,
    /// how the blocks of a slice-API call relate: 0 independent, 1 all equal, 2 each block is the ENCRYPTION of its
    /// predecessor (reference model), 3 each block is the DECRYPTION of its predecessor, 4 A B A B .., 5 A A B B ..
    /// (a per-call memo of the previous block, an "unchanged input" shortcut, lanes mixed up in a paired loop)
    #[serde(default)]
    pub layout: u8,
}

fn tweak_word() -> BoxedStrategy<u64> {
    prop_oneof![4 => any::<u64>(), 1 => Just(0u64), 1 => Just(u64::MAX), 1 => (0u32..64).prop_map(|b| 1u64 << b), 1 => Just(1u64 << 63)].boxed()
}

/// keys whose parity word (C240 xor all key words) is 0 or all-ones provoke carries in the key schedule
fn key_strategy(n: usize) -> BoxedStrategy<HexBytes> {
    prop_oneof![
        6 => bytes_n(n),
        1 => (bytes_n(n), any::<bool>()).prop_map(move |(k, ones)| {
            let mut w = words(&k.0);
            let mut x = 0x1BD11BDAA9FC1A22u64;
            for v in &w[1..] {
                x ^= *v;
            }
            w[0] = if ones { !x } else { x };
            HexBytes(unwords(&w))
        }),
    ]
    .boxed()
}

pub fn tf_strategy() -> BoxedStrategy<TfCase> {
    prop_oneof![Just(256u16), Just(512u16), Just(1024u16)]
        .prop_flat_map(|bits| {
            let n = bits as usize / 8;
            let per_2k = (2048 / n) as u16;
            (Just(bits), key_strategy(n), (tweak_word(), tweak_word()), bytes_n(n), prop::bool::weighted(0.1), prop_oneof![2 => Just((0u8, 0u8)), 1 => (0u8..8, 0u8..8)],
                prop_oneof![8 => Just(0u16), 2 => 1u16..40, 2 => (1u16..4, 0u16..3).prop_map(move |(k, d)| (k * per_2k + d).saturating_sub(1))],
                prop_oneof![3 => Just(0u8), 1 => 1u8..4], prop_oneof![5 => Just(0u8), 1 => Just(1u8), 2 => Just(2u8), 2 => Just(3u8), 1 => Just(4u8), 1 => Just(5u8)])
        })
        .prop_map(|(bits, key, tweak, block, via_new, offs, nblocks, decoy, layout)| TfCase { bits, key, tweak: if via_new { (0, 0) } else { tweak }, block, via_new, offs, nblocks, decoy, layout })
        .boxed()
}

fn run_impl(c: &TfCase, block: &[u8], decrypt: bool) -> Vec<u8> {
    macro_rules! go {
        ($t:ty) => {{
            // key and block live at the generated offsets of 8-byte aligned buffers
            let n = block.len();
            if c.decoy != 0 {
                let mut dk = c.key.0.clone();
                match c.decoy {
                    1 => { for i in 0..8 { dk.swap(i, 8 + i); } }
                    3 => dk[n - 1] ^= 0x40,
                    _ => {}
                }
                let dt = if c.decoy == 2 { (c.tweak.0 ^ 1, c.tweak.1) } else { c.tweak };
                let d = if c.via_new && c.decoy != 2 { <$t>::new(GenericArray::from_slice(&dk)) } else { <$t>::with_tweak(GenericArray::from_slice(&dk), dt.0, dt.1) };
                let mut scratch = GenericArray::clone_from_slice(block);
                d.encrypt_block(&mut scratch);
                d.decrypt_block(&mut scratch);
                std::hint::black_box(&scratch);
            }
            let (ko, bo) = ((c.offs.0 % 8) as usize, (c.offs.1 % 8) as usize);
            let mut kbuf = vec![0u64; n / 8 + 2];
            let kbytes: &mut [u8] = unsafe { std::slice::from_raw_parts_mut(kbuf.as_mut_ptr() as *mut u8, n + 16) };
            kbytes[ko..ko + n].copy_from_slice(&c.key.0);
            let key = GenericArray::from_slice(&kbytes[ko..ko + n]);
            let f = if c.via_new { <$t>::new(key) } else { <$t>::with_tweak(key, c.tweak.0, c.tweak.1) };
            let mut bbuf = vec![0u64; n / 8 + 2];
            let bbytes: &mut [u8] = unsafe { std::slice::from_raw_parts_mut(bbuf.as_mut_ptr() as *mut u8, n + 16) };
            bbytes[bo..bo + n].copy_from_slice(block);
            let b = GenericArray::from_mut_slice(&mut bbytes[bo..bo + n]);
            if decrypt { f.decrypt_block(b) } else { f.encrypt_block(b) }
            b.to_vec()
        }};
    }
    match c.bits {
        256 => go!(Threefish256),
        512 => go!(Threefish512),
        _ => go!(Threefish1024),
    }
}

pub fn c09_check(c: &TfCase, info: &mut CaseInfo) -> Result<(), Fail> {
    let want = unwords(&threefish_encrypt(&words(&c.key.0), [c.tweak.0, c.tweak.1], &words(&c.block.0)));
    info.label(format!("Threefish{}", c.bits));
    info.label_if(c.via_new, "constructed with new()");
    info.label_if(c.decoy != 0, "a related cipher object was built and used just before");
    slice_check("C09", c, info)?;
    info.label_if(c.offs.1 % 8 != 0, "block at an address that is not 8-byte aligned");
    info.nontrivial = true;
    match guard(|| run_impl(c, &c.block.0, false)) {
        Err(p) => Err(Fail::new(format!("C09:Threefish{}:PANIC", c.bits), p)),
        Ok(g) => {
            if g != want {
                Err(Fail::new(format!("C09:Threefish{}:WRONG", c.bits), format!("ciphertext {} != reference {}", crate::refmodels::hex(&g[..16]), crate::refmodels::hex(&want[..16]))))
            } else {
                Ok(())
            }
        }
    }
}

/// the slice API: n different blocks through encrypt_blocks / decrypt_blocks
fn run_slices(c: &TfCase, decrypt: bool, blocks: &[Vec<u8>]) -> Vec<Vec<u8>> {
    macro_rules! go {
        ($t:ty) => {{
            let f = <$t>::with_tweak(GenericArray::from_slice(&c.key.0), c.tweak.0, c.tweak.1);
            let mut v: Vec<_> = blocks.iter().map(|b| GenericArray::clone_from_slice(b)).collect();
            if decrypt { f.decrypt_blocks(&mut v) } else { f.encrypt_blocks(&mut v) }
            v.iter().map(|b| b.to_vec()).collect()
        }};
    }
    match c.bits {
        256 => go!(Threefish256),
        512 => go!(Threefish512),
        _ => go!(Threefish1024),
    }
}

fn slice_check(prop: &str, c: &TfCase, info: &mut CaseInfo) -> Result<(), Fail> {
    if c.nblocks == 0 {
        return Ok(());
    }
    let n = c.bits as usize / 8;
    let name = format!("Threefish{}", c.bits);
    let mut s = c.tweak.0 ^ 0x51ce;
    let mut blocks: Vec<Vec<u8>> = (0..c.nblocks).map(|i| if i == 0 { c.block.0.clone() } else { crate::gen::expand(crate::engine::splitmix(&mut s), n, 0) }).collect();
    let kw = words(&c.key.0);
    for i in 1..blocks.len() {
        let b = match c.layout {
            1 => blocks[0].clone(),
            2 => unwords(&threefish_encrypt(&kw, [c.tweak.0, c.tweak.1], &words(&blocks[i - 1]))),
            3 => unwords(&threefish_decrypt(&kw, [c.tweak.0, c.tweak.1], &words(&blocks[i - 1]))),
            4 => blocks[i % 2].clone(),
            5 => blocks[(i / 2) % 2 * 2].clone(),
            _ => continue,
        };
        blocks[i] = b;
    }
    info.label_if(c.layout == 2 && c.nblocks >= 2, "slice: each block is the encryption of its predecessor");
    info.label_if(c.layout == 3 && c.nblocks >= 2, "slice: each block is the decryption of its predecessor");
    info.label_if(matches!(c.layout, 1 | 4 | 5) && c.nblocks >= 2, "slice: repeated blocks");
    info.label("slice API (encrypt_blocks/decrypt_blocks)");
    info.label_if((c.nblocks as usize * n) % 2048 == 0, "slice is an exact multiple of 2 KiB");
    let r = guard(|| {
        let ct = run_slices(c, false, &blocks);
        let back = run_slices(c, true, &ct);
        (ct, back)
    });
    match r {
        Err(p) => Err(Fail::new(format!("{}:{}:slice:PANIC", prop, name), p)),
        Ok((ct, back)) => {
            for (i, b) in blocks.iter().enumerate() {
                let want = unwords(&threefish_encrypt(&words(&c.key.0), [c.tweak.0, c.tweak.1], &words(b)));
                if ct[i] != want {
                    return Err(Fail::new(format!("{}:{}:slice:ENC-WRONG", prop, name), format!("encrypt_blocks: block {} of {} differs from the reference", i, blocks.len())));
                }
                if back[i] != *b {
                    return Err(Fail::new(format!("{}:{}:slice:DEC-ENC", prop, name), format!("decrypt_blocks(encrypt_blocks(x)): block {} of {} is not restored", i, blocks.len())));
                }
            }
            Ok(())
        }
    }
}

pub fn c10_check(c: &TfCase, info: &mut CaseInfo) -> Result<(), Fail> {
    info.label(format!("Threefish{}", c.bits));
    info.nontrivial = true;
    info.label_if(c.decoy != 0, "a related cipher object was built and used just before");
    slice_check("C10", c, info)?;
    let r = guard(|| {
        let ct = run_impl(c, &c.block.0, false);
        let back = run_impl(c, &ct, true);
        let pt = run_impl(c, &c.block.0, true);
        let forth = run_impl(c, &pt, false);
        (back, pt, forth)
    });
    let name = format!("Threefish{}", c.bits);
    match r {
        Err(p) => Err(Fail::new(format!("C10:{}:PANIC", name), p)),
        Ok((back, pt, forth)) => {
            if back != c.block.0 {
                return Err(Fail::new(format!("C10:{}:DEC-ENC", name), "decrypt(encrypt(x)) != x".to_string()));
            }
            if forth != c.block.0 {
                return Err(Fail::new(format!("C10:{}:ENC-DEC", name), "encrypt(decrypt(x)) != x".to_string()));
            }
            // a pair of compensating errors would still be visible against the reference inverse
            let want = unwords(&threefish_decrypt(&words(&c.key.0), [c.tweak.0, c.tweak.1], &words(&c.block.0)));
            if pt != want {
                return Err(Fail::new(format!("C10:{}:DEC-WRONG", name), "decrypt_block differs from the reference inverse".to_string()));
            }
            Ok(())
        }
    }
}

pub fn run_c09(ctx: &mut Ctx) {
    let n = ctx.count(250_000, 5_000_000);
    ctx.run("encrypt", n, tf_strategy(), c09_check);
    ctx.required_classes.push("constructed with new()".into());
    ctx.required_classes.push("slice: each block is the encryption of its predecessor".into());
    ctx.required_classes.push("slice: repeated blocks".into());
    for b in [256, 512, 1024] {
        ctx.required_classes.push(format!("Threefish{}", b));
    }
}

pub fn run_c10(ctx: &mut Ctx) {
    let n = ctx.count(200_000, 3_000_000);
    ctx.run("roundtrip", n, tf_strategy(), c10_check);
}
