//! Hash registry (15 fixed types + Skein output-size family), conformance C04-C07, incremental
//! hashing histories C08, and the length-counter property C17.

use crate::engine::{guard, splitmix, CaseInfo, Ctx, Fail};
use crate::gen::{self, Msg};
use crate::refmodels::{self, blake::RefBlake, groestl::RefGroestl, jh::RefJh, skein::RefSkein};
use digest::generic_array::typenum::*;
use digest::{Digest, FixedOutput};
use proptest::prelude::*;
use serde::{Deserialize, Serialize};

/// Longest byte string for which histories are also compared with the (slow) reference model.
pub static REF_LIMIT: std::sync::atomic::AtomicUsize = std::sync::atomic::AtomicUsize::new(2048);

#[derive(Clone, Copy, Debug, PartialEq, Eq)]
pub enum Family {
    Blake,
    Groestl,
    Jh,
    Skein,
}

/// Object-safe view of a hasher, including the cfg-guarded counter hook.
pub trait H: Send {
    fn update(&mut self, d: &[u8]);
    /// `Digest::finalize_reset` (clone + finalize + reset)
    fn finalize_reset(&mut self) -> Vec<u8>;
    /// `FixedOutput::finalize_fixed_reset` (finalize in place + reset)
    fn finalize_fixed_reset(&mut self) -> Vec<u8>;
    fn finalize_box(self: Box<Self>) -> Vec<u8>;
    fn reset(&mut self);
    fn box_clone(&self) -> Box<dyn H>;
    fn chain_box(self: Box<Self>, d: &[u8]) -> Box<dyn H>;
    /// counter in the unit of the family: BLAKE bits compressed, Groestl blocks compressed,
    /// JH total bytes absorbed, Skein bytes processed
    fn set_counter(&mut self, c: u128);
    fn counter(&self) -> u128;
}

macro_rules! impl_h {
    ($ty:ty, |$s:ident, $c:ident| $set:expr, |$g:ident| $get:expr) => {
        impl H for $ty {
            fn update(&mut self, d: &[u8]) {
                Digest::update(self, d)
            }
            fn finalize_reset(&mut self) -> Vec<u8> {
                Digest::finalize_reset(self).to_vec()
            }
            fn finalize_fixed_reset(&mut self) -> Vec<u8> {
                FixedOutput::finalize_fixed_reset(self).to_vec()
            }
            fn finalize_box(self: Box<Self>) -> Vec<u8> {
                Digest::finalize(*self).to_vec()
            }
            fn reset(&mut self) {
                Digest::reset(self)
            }
            fn box_clone(&self) -> Box<dyn H> {
                Box::new(self.clone())
            }
            fn chain_box(self: Box<Self>, d: &[u8]) -> Box<dyn H> {
                Box::new(Digest::chain(*self, d))
            }
            fn set_counter(&mut self, $c: u128) {
                let $s = self;
                $set
            }
            fn counter(&self) -> u128 {
                let $g = self;
                $get
            }
        }
    };
}

impl_h!(blake_hash::Blake224, |s, c| s.verif_set_counter((c as u32, (c >> 32) as u32)), |g| { let t = g.verif_counter(); (t.0 as u128) | ((t.1 as u128) << 32) });
impl_h!(blake_hash::Blake256, |s, c| s.verif_set_counter((c as u32, (c >> 32) as u32)), |g| { let t = g.verif_counter(); (t.0 as u128) | ((t.1 as u128) << 32) });
impl_h!(blake_hash::Blake384, |s, c| s.verif_set_counter((c as u64, (c >> 64) as u64)), |g| { let t = g.verif_counter(); (t.0 as u128) | ((t.1 as u128) << 64) });
impl_h!(blake_hash::Blake512, |s, c| s.verif_set_counter((c as u64, (c >> 64) as u64)), |g| { let t = g.verif_counter(); (t.0 as u128) | ((t.1 as u128) << 64) });
impl_h!(groestl_aesni::Groestl224, |s, c| s.verif_set_counter(c as u64), |g| g.verif_counter() as u128);
impl_h!(groestl_aesni::Groestl256, |s, c| s.verif_set_counter(c as u64), |g| g.verif_counter() as u128);
impl_h!(groestl_aesni::Groestl384, |s, c| s.verif_set_counter(c as u64), |g| g.verif_counter() as u128);
impl_h!(groestl_aesni::Groestl512, |s, c| s.verif_set_counter(c as u64), |g| g.verif_counter() as u128);
impl_h!(jh_x86_64::Jh224, |s, c| s.verif_set_counter(c as usize), |g| g.verif_counter() as u128);
impl_h!(jh_x86_64::Jh256, |s, c| s.verif_set_counter(c as usize), |g| g.verif_counter() as u128);
impl_h!(jh_x86_64::Jh384, |s, c| s.verif_set_counter(c as usize), |g| g.verif_counter() as u128);
impl_h!(jh_x86_64::Jh512, |s, c| s.verif_set_counter(c as usize), |g| g.verif_counter() as u128);

macro_rules! impl_skein {
    ($($n:ty),*) => {
        $(
            impl_h!(skein_hash::Skein256<$n>, |s, c| s.verif_set_counter(c as u64), |g| g.verif_counter() as u128);
            impl_h!(skein_hash::Skein512<$n>, |s, c| s.verif_set_counter(c as u64), |g| g.verif_counter() as u128);
            impl_h!(skein_hash::Skein1024<$n>, |s, c| s.verif_set_counter(c as u64), |g| g.verif_counter() as u128);
        )*
    };
}
impl_skein!(U1, U7, U8, U16, U20, U28, U31, U32, U33, U48, U64, U65, U77, U100, U128, U129, U200, U256, U300);
// outputs of more than 256 output blocks (the output counter needs a second byte)
impl_h!(skein_hash::Skein256<U10000>, |s, c| s.verif_set_counter(c as u64), |g| g.verif_counter() as u128);
impl_h!(skein_hash::Skein512<U32768>, |s, c| s.verif_set_counter(c as u64), |g| g.verif_counter() as u128);
impl_h!(skein_hash::Skein1024<U65536>, |s, c| s.verif_set_counter(c as u64), |g| g.verif_counter() as u128);

#[derive(Clone)]
pub struct HashSpec {
    pub name: String,
    pub family: Family,
    /// digest bits (BLAKE/Groestl/JH) or output bytes * 8 (Skein)
    pub bits: u32,
    /// Skein state size in bits (0 otherwise)
    pub state_bits: usize,
    pub block: usize,
    pub make: fn() -> Box<dyn H>,
}

fn mk<D: H + Default + 'static>() -> Box<dyn H> {
    Box::new(D::default())
}

pub const SKEIN_N: [usize; 19] = [1, 7, 8, 16, 20, 28, 31, 32, 33, 48, 64, 65, 77, 100, 128, 129, 200, 256, 300];

pub fn fixed_hashes() -> Vec<HashSpec> {
    let mut v = Vec::new();
    let mut add = |name: &str, family, bits, block, make| v.push(HashSpec { name: name.to_string(), family, bits, state_bits: 0, block, make });
    add("Blake224", Family::Blake, 224, 64, mk::<blake_hash::Blake224>);
    add("Blake256", Family::Blake, 256, 64, mk::<blake_hash::Blake256>);
    add("Blake384", Family::Blake, 384, 128, mk::<blake_hash::Blake384>);
    add("Blake512", Family::Blake, 512, 128, mk::<blake_hash::Blake512>);
    add("Groestl224", Family::Groestl, 224, 64, mk::<groestl_aesni::Groestl224>);
    add("Groestl256", Family::Groestl, 256, 64, mk::<groestl_aesni::Groestl256>);
    add("Groestl384", Family::Groestl, 384, 128, mk::<groestl_aesni::Groestl384>);
    add("Groestl512", Family::Groestl, 512, 128, mk::<groestl_aesni::Groestl512>);
    add("Jh224", Family::Jh, 224, 64, mk::<jh_x86_64::Jh224>);
    add("Jh256", Family::Jh, 256, 64, mk::<jh_x86_64::Jh256>);
    add("Jh384", Family::Jh, 384, 64, mk::<jh_x86_64::Jh384>);
    add("Jh512", Family::Jh, 512, 64, mk::<jh_x86_64::Jh512>);
    v
}

pub fn skein_hashes() -> Vec<HashSpec> {
    let mut v = Vec::new();
    macro_rules! sk {
        ($($n:ty => $nb:expr),*) => {
            $(
                v.push(HashSpec { name: format!("Skein256<{}>", $nb), family: Family::Skein, bits: $nb * 8, state_bits: 256, block: 32, make: mk::<skein_hash::Skein256<$n>> });
                v.push(HashSpec { name: format!("Skein512<{}>", $nb), family: Family::Skein, bits: $nb * 8, state_bits: 512, block: 64, make: mk::<skein_hash::Skein512<$n>> });
                v.push(HashSpec { name: format!("Skein1024<{}>", $nb), family: Family::Skein, bits: $nb * 8, state_bits: 1024, block: 128, make: mk::<skein_hash::Skein1024<$n>> });
            )*
        };
    }
    sk!(U1 => 1, U7 => 7, U8 => 8, U16 => 16, U20 => 20, U28 => 28, U31 => 31, U32 => 32, U33 => 33, U48 => 48, U64 => 64,
        U65 => 65, U77 => 77, U100 => 100, U128 => 128, U129 => 129, U200 => 200, U256 => 256, U300 => 300);
    v
}

pub fn skein_large_outputs() -> Vec<HashSpec> {
    vec![
        HashSpec { name: "Skein256<10000>".into(), family: Family::Skein, bits: 80_000, state_bits: 256, block: 32, make: mk::<skein_hash::Skein256<U10000>> },
        HashSpec { name: "Skein512<32768>".into(), family: Family::Skein, bits: 262_144, state_bits: 512, block: 64, make: mk::<skein_hash::Skein512<U32768>> },
        HashSpec { name: "Skein1024<65536>".into(), family: Family::Skein, bits: 524_288, state_bits: 1024, block: 128, make: mk::<skein_hash::Skein1024<U65536>> },
    ]
}

/// The 15 hash types of C08 (+ two Skein instantiations with unusual output sizes).
pub fn c08_hashes() -> Vec<HashSpec> {
    let mut v = fixed_hashes();
    let sk = skein_hashes();
    for n in ["Skein256<32>", "Skein512<64>", "Skein1024<128>", "Skein256<33>", "Skein1024<200>"] {
        v.push(sk.iter().find(|s| s.name == n).unwrap().clone());
    }
    v
}

/// C18: the C08 list plus more Skein output sizes, so that every state size has several instantiations that are not
/// in the reference implementation's table of precomputed initial values (state shared between the instantiations
/// of one state size - a cache of derived IVs, say - needs two such siblings in use at the same time).
pub fn c18_hashes() -> Vec<HashSpec> {
    let mut v = c08_hashes();
    let sk = skein_hashes();
    for n in ["Skein256<7>", "Skein256<77>", "Skein512<33>", "Skein512<100>", "Skein1024<77>", "Skein1024<300>"] {
        v.push(sk.iter().find(|s| s.name == n).unwrap().clone());
    }
    v
}

pub fn by_family(f: Family) -> Vec<HashSpec> {
    if f == Family::Skein { skein_hashes() } else { fixed_hashes().into_iter().filter(|h| h.family == f).collect() }
}

/// Streaming reference with counter control.
pub enum RefH<'a> {
    Blake(RefBlake),
    Groestl(RefGroestl<'a>),
    Jh(RefJh<'a>),
    Skein(RefSkein),
}

impl<'a> RefH<'a> {
    pub fn new(spec: &HashSpec) -> RefH<'static> {
        let m = refmodels::models();
        match spec.family {
            Family::Blake => RefH::Blake(RefBlake::new(spec.bits)),
            Family::Groestl => RefH::Groestl(RefGroestl::new(&m.groestl, spec.bits)),
            Family::Jh => RefH::Jh(RefJh::new(&m.jh, spec.bits)),
            Family::Skein => RefH::Skein(RefSkein::new(spec.state_bits, (spec.bits / 8) as usize)),
        }
    }
    pub fn update(&mut self, d: &[u8]) {
        match self {
            RefH::Blake(h) => h.update(d),
            RefH::Groestl(h) => h.update(d),
            RefH::Jh(h) => h.update(d),
            RefH::Skein(h) => h.update(d),
        }
    }
    pub fn set_counter(&mut self, c: u128) {
        match self {
            RefH::Blake(h) => h.set_compressed_bits(c),
            RefH::Groestl(h) => h.set_blocks(c),
            RefH::Jh(h) => h.set_total_bytes(c),
            RefH::Skein(h) => h.set_processed_bytes(c),
        }
    }
    pub fn counter(&self) -> u128 {
        match self {
            RefH::Blake(h) => h.nbits,
            RefH::Groestl(h) => h.nblocks,
            RefH::Jh(h) => h.nbytes,
            RefH::Skein(h) => h.pos,
        }
    }
    pub fn finalize(self) -> Vec<u8> {
        match self {
            RefH::Blake(h) => h.finalize(),
            RefH::Groestl(h) => h.finalize(),
            RefH::Jh(h) => h.finalize(),
            RefH::Skein(h) => h.finalize(),
        }
    }
}

pub fn ref_digest(spec: &HashSpec, msg: &[u8]) -> Vec<u8> {
    let mut r = RefH::new(spec);
    r.update(msg);
    r.finalize()
}

// ------------------------------------------------------------------------------------------------
// C04-C07 conformance
// ------------------------------------------------------------------------------------------------

#[derive(Clone, Debug, Serialize, Deserialize)]
pub struct ConfCase {
    pub hash: String,
    pub msg: Msg,
    /// the message is fed in pieces cut at these positions (reduced modulo the length); empty = one call
    #[serde(default)]
    pub cuts: Vec<u16>,
}

fn find<'a>(specs: &'a [HashSpec], name: &str) -> Option<&'a HashSpec> {
    specs.iter().find(|s| s.name == name)
}

pub fn conf_check(prop: &str, specs: &[HashSpec], c: &ConfCase, info: &mut CaseInfo) -> Result<(), Fail> {
    let spec = find(specs, &c.hash).ok_or_else(|| Fail::new("HARNESS:unknown-hash", c.hash.clone()))?;
    let m = c.msg.bytes();
    let want = ref_digest(spec, &m);
    let mut cuts: Vec<usize> = if m.is_empty() { Vec::new() } else { c.cuts.iter().map(|x| (*x as usize) % (m.len() + 1)).collect() };
    cuts.sort();
    let got = guard(|| {
        let mut h = (spec.make)();
        let mut prev = 0;
        for k in cuts.iter().chain(std::iter::once(&m.len())) {
            h.update(&m[prev..*k]);
            prev = *k;
        }
        h.finalize_box()
    });
    let b = spec.block;
    let len = m.len();
    info.label_if(!cuts.is_empty(), "message fed in several pieces");
    info.label(spec.name.clone());
    info.label_if(len == 0, "empty message");
    info.label_if(len > 0 && len % b == 0, "exact multiple of the block size");
    info.label_if(len > 2 * b, "more than two blocks");
    match spec.family {
        Family::Blake => {
            let foot = if b == 64 { 9 } else { 17 };
            info.label_if(len % b + foot == b, "BLAKE exact fit (padding byte 0x81)");
            info.label_if(len % b + foot > b, "BLAKE extra padding block");
        }
        Family::Groestl => info.label_if(b - len % b <= 8, "Groestl extra padding block (<= 8 bytes left)"),
        Family::Jh => info.label_if(len % 64 != 0, "JH two padding blocks"),
        Family::Skein => {
            info.label_if(spec.bits as usize / 8 > b, "Skein several output blocks");
            info.label_if(spec.bits % 64 != 0, "Skein output not a multiple of 8 bytes");
        }
    }
    info.nontrivial = true;
    match got {
        Err(p) => Err(Fail::new(format!("{}:{}:PANIC", prop, spec.name), format!("hashing {} bytes panicked: {}", len, p))),
        Ok(g) => {
            if g != want {
                Err(Fail::new(
                    format!("{}:{}:WRONG", prop, spec.name),
                    format!("digest of {} bytes (pattern {}): got {} want {}", len, c.msg.pat, refmodels::hex(&g), refmodels::hex(&want)),
                ))
            } else {
                Ok(())
            }
        }
    }
}

fn run_conformance(ctx: &mut Ctx, prop: &'static str, family: Family, quick_random: u32, thorough_random: u32) {
    let specs = by_family(family);
    let specs2 = specs.clone();
    // exhaustive length sweep 0..=3*block+2 per type, content pattern varied along the sweep
    let mut sweep = Vec::new();
    let mut s = ctx.seed ^ 0x5eed;
    let sweep_specs: Vec<&HashSpec> = if family == Family::Skein && ctx.tier == crate::engine::Tier::Quick {
        // the full sweep over 57 Skein instantiations is run in the thorough tier; quick sweeps a rotating third
        specs.iter().enumerate().filter(|(i, _)| (i + (ctx.seed as usize)) % 3 == 0).map(|(_, s)| s).collect()
    } else {
        specs.iter().collect()
    };
    for spec in &sweep_specs {
        for len in 0..=(3 * spec.block + 2) {
            let seed = splitmix(&mut s);
            // boundary lengths get every pattern, the others a rotating one
            let r = len % spec.block;
            let boundary = r <= 1 || r + 18 >= spec.block || len <= 2;
            if boundary {
                for pat in 0..=5u8 {
                    sweep.push(ConfCase { hash: spec.name.clone(), msg: Msg { seed, len, pat }, cuts: Vec::new() });
                }
            } else {
                sweep.push(ConfCase { hash: spec.name.clone(), msg: Msg { seed, len, pat: (len % 6) as u8 }, cuts: Vec::new() });
            }
        }
    }
    ctx.exhaustive_dimensions.push(format!("{}: every message length 0..=3*block+2 for {} hash types", prop, sweep_specs.len()));
    ctx.run_list("length-sweep", sweep, |c, i| conf_check(prop, &specs2, c, i));
    // random lengths up to 8 blocks (+ a few longer) per type
    let names: Vec<String> = specs.iter().map(|s| s.name.clone()).collect();
    let blocks: Vec<usize> = specs.iter().map(|s| s.block).collect();
    let nspec = names.len();
    let specs3 = specs.clone();
    let long_max = if ctx.tier == crate::engine::Tier::Quick { 65_536usize } else { 1 << 20 };
    let strat = (0..nspec, any::<u64>(), 0u32..1000, any::<u16>(), gen::pattern(), prop_oneof![3 => Just(Vec::new()), 2 => prop::collection::vec(any::<u16>(), 1..=3)]).prop_map(move |(hi, seed, sel, l, pat, cuts)| {
        let b = blocks[hi];
        let len = if sel < 600 {
            (l as usize) % (8 * b + 1)
        } else if sel < 960 {
            // k*b + d - 1 for k in 0..=8, d in 0..3
            (((l as usize) % 9) * b + ((l as usize >> 8) % 3)).saturating_sub(1)
        } else if sel < 985 {
            (l as usize) * 4 % 20_000
        } else if sel < 992 {
            // long exact multiples of the block size (bulk paths that split off a tail)
            b * (16 + (l as usize) % 1100)
        } else {
            ((seed as usize) % long_max).max(1)
        };
        ConfCase { hash: names[hi].clone(), msg: Msg { seed, len, pat }, cuts }
    });
    let n = ctx.count(quick_random, thorough_random);
    ctx.run("random-messages", n, strat, |c, i| conf_check(prop, &specs3, c, i));
}

pub fn run_c04(ctx: &mut Ctx) {
    run_conformance(ctx, "C04", Family::Blake, 600_000, 12_000_000);
    ctx.required_classes.push("BLAKE exact fit (padding byte 0x81)".into());
    ctx.required_classes.push("BLAKE extra padding block".into());
    ctx.required_classes.push("empty message".into());
}
pub fn run_c05(ctx: &mut Ctx) {
    run_conformance(ctx, "C05", Family::Skein, 200_000, 1_200_000);
    // outputs of more than 256 blocks: 10 000 / 32 768 / 65 536 bytes
    let large = skein_large_outputs();
    let mut cases = Vec::new();
    for spec in &large {
        for (i, len) in [0usize, 1, spec.block, 3 * spec.block + 5].iter().enumerate() {
            cases.push(ConfCase { hash: spec.name.clone(), msg: Msg { seed: ctx.seed ^ i as u64, len: *len, pat: 0 }, cuts: Vec::new() });
        }
    }
    let l2 = large.clone();
    ctx.run_list("large-output", cases, |c, i| {
        i.label("Skein output longer than 256 output blocks");
        conf_check("C05", &l2, c, i)
    });
    ctx.required_classes.push("Skein output longer than 256 output blocks".into());
    ctx.required_classes.push("Skein several output blocks".into());
    ctx.required_classes.push("Skein output not a multiple of 8 bytes".into());
    ctx.required_classes.push("exact multiple of the block size".into());
}
pub fn run_c07(ctx: &mut Ctx) {
    run_conformance(ctx, "C07", Family::Groestl, 40_000, 500_000);
    ctx.required_classes.push("Groestl extra padding block (<= 8 bytes left)".into());
    // block counts that need a second / third counter byte
    let specs = by_family(Family::Groestl);
    let mut cases = Vec::new();
    // the 2^16-block messages (4-8 MiB each through the reference) only in the full-scale thorough worker
    let small = ctx.tier == crate::engine::Tier::Quick || !ctx.primary;
    let counts: &[usize] = if small { &[255, 256, 257] } else { &[255, 256, 257, 65_535, 65_536, 65_537] };
    for spec in &specs {
        for &nb in counts {
            // total blocks incl. padding = nb: message of nb-1 full blocks + a few bytes
            for extra in [0usize, 5, spec.block - 9, spec.block - 8] {
                cases.push(ConfCase { hash: spec.name.clone(), msg: Msg { seed: nb as u64 ^ ctx.seed, len: (nb - 1) * spec.block + extra, pat: 0 }, cuts: Vec::new() });
            }
        }
    }
    if ctx.tier == crate::engine::Tier::Quick && ctx.primary {
        // one real crossing of the third counter byte per run (4 MiB resp. 8 MiB), variant rotating with the seed
        let spec = &specs[(ctx.seed % 4) as usize];
        for (nb, extra) in [(65_536usize, 5usize), (65_537, spec.block - 8)] {
            cases.push(ConfCase { hash: spec.name.clone(), msg: Msg { seed: ctx.seed, len: (nb - 1) * spec.block + extra, pat: 0 }, cuts: Vec::new() });
        }
    }
    let specs2 = specs.clone();
    ctx.run_list("block-count-bytes", cases, |c, i| {
        i.label("block count crosses a counter byte");
        conf_check("C07", &specs2, c, i)
    });
}

// ---- C06 additionally drives the compression function directly

#[derive(Clone, Debug, Serialize, Deserialize)]
pub struct F8Case {
    pub state: crate::gen::HexBytes,
    pub block: crate::gen::HexBytes,
    pub blocks: u8,
}

pub fn f8_check(c: &F8Case, info: &mut CaseInfo) -> Result<(), Fail> {
    use digest::generic_array::GenericArray;
    let m = refmodels::models();
    let mut st = [0u8; 128];
    st.copy_from_slice(&c.state.0);
    let mut want = st;
    let n = c.blocks.max(1) as usize;
    let mut s = 7u64;
    let mut blocks = vec![c.block.0.clone()];
    for _ in 1..n {
        blocks.push((0..64).map(|_| splitmix(&mut s) as u8).collect());
    }
    for b in &blocks {
        want = refmodels::jh::f8(&m.jh, &want, b);
    }
    let got = guard(|| {
        let mut comp = jh_x86_64::compressor::Compressor::new(st);
        for b in &blocks {
            comp.input(GenericArray::from_slice(b));
        }
        comp.finalize()
    });
    info.nontrivial = true;
    info.label("Compressor::input on an arbitrary 1024-bit state");
    match got {
        Err(p) => Err(Fail::new("C06:F8:PANIC", p)),
        Ok(g) => {
            if g != want {
                Err(Fail::new("C06:F8:WRONG", format!("F8 on state {} block {}: got {}.. want {}..", refmodels::hex(&st[..16]), refmodels::hex(&c.block.0[..16]), refmodels::hex(&g[..16]), refmodels::hex(&want[..16]))))
            } else {
                Ok(())
            }
        }
    }
}

pub fn run_c06(ctx: &mut Ctx) {
    run_conformance(ctx, "C06", Family::Jh, 20_000, 300_000);
    ctx.required_classes.push("JH two padding blocks".into());
    let strat = (gen::bytes_n(128), gen::bytes_n(64), 1u8..4).prop_map(|(state, block, blocks)| F8Case { state, block, blocks });
    let n = ctx.count(20_000, 500_000);
    ctx.run("f8-direct", n, strat, f8_check);
}

// ------------------------------------------------------------------------------------------------
// C08: histories
// ------------------------------------------------------------------------------------------------

#[derive(Clone, Debug, Serialize, Deserialize)]
pub enum Piece {
    Fixed(u16),
    /// block - fill + delta
    ToBoundary(i8),
    /// k blocks - fill + delta
    Blocks(u8, i8),
    /// a long piece: 2 KiB + 4 * n bytes (up to ~260 KiB)
    Big(u16),
    /// a very long piece: (k + 1) * 64 KiB + delta bytes (64 KiB .. 1.5 MiB for k < 24): bulk paths that only start
    /// at some large size of ONE call
    Huge(u8, i8),
}

#[derive(Clone, Debug, Serialize, Deserialize)]
pub enum HOp {
    Update(u16, Piece),
    Chain(u16, Piece),
    Clone(u16),
    Reset(u16),
    FinalizeReset(u16),
    FinalizeFixedReset(u16),
    Finalize(u16),
    /// a brand-new instance joins the set
    New,
}

#[derive(Clone, Debug, Serialize, Deserialize)]
pub struct HHistory {
    pub hash: String,
    pub seed: u64,
    pub pat: u8,
    pub ops: Vec<HOp>,
}

pub fn piece() -> BoxedStrategy<Piece> {
    prop_oneof![
        16 => prop_oneof![Just(0u16), Just(1u16), 0u16..700].prop_map(Piece::Fixed),
        16 => (-2i8..3).prop_map(Piece::ToBoundary),
        12 => (1u8..5, -2i8..3).prop_map(|(k, d)| Piece::Blocks(k, d)),
        1 => prop_oneof![16 => (0u16..4096).prop_map(Piece::Big), 4 => any::<u16>().prop_map(Piece::Big),
                         1 => (prop_oneof![Just(0u8), Just(15u8), 0u8..24], -3i8..4).prop_map(|(k, d)| Piece::Huge(k, d))],
    ]
    .boxed()
}

pub fn hop() -> BoxedStrategy<HOp> {
    prop_oneof![
        10 => (any::<u16>(), piece()).prop_map(|(i, p)| HOp::Update(i, p)),
        1 => (any::<u16>(), piece()).prop_map(|(i, p)| HOp::Chain(i, p)),
        3 => any::<u16>().prop_map(HOp::Clone),
        2 => any::<u16>().prop_map(HOp::Reset),
        2 => any::<u16>().prop_map(HOp::FinalizeReset),
        2 => any::<u16>().prop_map(HOp::FinalizeFixedReset),
        3 => any::<u16>().prop_map(HOp::Finalize),
        1 => Just(HOp::New),
    ]
    .boxed()
}

pub fn hhistory_strategy(names: Vec<String>, max_ops: usize) -> BoxedStrategy<HHistory> {
    let n = names.len();
    (0..n, any::<u64>(), gen::pattern(), prop::collection::vec(hop(), 1..=max_ops))
        .prop_map(move |(h, seed, pat, ops)| HHistory { hash: names[h].clone(), seed, pat, ops })
        .boxed()
}

struct Inst {
    h: Box<dyn H>,
    model: Vec<u8>,
    updates: u32,
    boundary_piece: bool,
    from_clone: bool,
    reused: &'static str,
}

pub fn piece_len(p: &Piece, fill: usize, b: usize) -> usize {
    match p {
        Piece::Fixed(n) => *n as usize,
        Piece::ToBoundary(d) => (b as i64 - fill as i64 + *d as i64).max(0) as usize,
        Piece::Blocks(k, d) => ((*k as i64) * b as i64 - fill as i64 + *d as i64).max(0) as usize,
        Piece::Big(k) => 2048 + 4 * (*k as usize),
        Piece::Huge(k, d) => ((((*k as usize) % 24 + 1) << 16) as i64 + *d as i64) as usize,
    }
}

pub fn hhistory_check(prop: &str, specs: &[HashSpec], c: &HHistory, info: &mut CaseInfo) -> Result<(), Fail> {
    let spec = find(specs, &c.hash).ok_or_else(|| Fail::new("HARNESS:unknown-hash", c.hash.clone()))?;
    let b = spec.block;
    let name = spec.name.clone();
    let fail = |kind: &str, step: usize, d: String| Fail::new(format!("{}:{}:{}", prop, name, kind), format!("step {}: {}", step, d));
    let fresh = |reused: &'static str| Inst { h: (spec.make)(), model: Vec::new(), updates: 0, boundary_piece: false, from_clone: false, reused };
    let mut live: Vec<Inst> = vec![fresh("")];
    let mut stream = c.seed;
    let mut finalized_nontrivial = false;
    // digest of the model string: one-shot through the implementation (the property's own
    // relation) and, for short strings, the reference model
    let verify = |inst: &Inst, got: &[u8], step: usize, how: &str, info: &mut CaseInfo| -> Result<(), Fail> {
        let oneshot = guard(|| {
            let mut h = (spec.make)();
            h.update(&inst.model);
            h.finalize_box()
        })
        .map_err(|p| fail("oneshot:PANIC", step, p))?;
        if got != &oneshot[..] {
            return Err(fail(
                &format!("{}:DIFFERS-FROM-ONESHOT", how),
                step,
                format!("{} after {} updates over {} bytes (clone={}, reused='{}'): {} != one-shot {}", how, inst.updates, inst.model.len(), inst.from_clone, inst.reused, refmodels::hex(got), refmodels::hex(&oneshot)),
            ));
        }
        if inst.model.len() <= REF_LIMIT.load(std::sync::atomic::Ordering::Relaxed) {
            let want = ref_digest(spec, &inst.model);
            if got != &want[..] {
                return Err(fail(&format!("{}:DIFFERS-FROM-REFERENCE", how), step, format!("digest of {} bytes differs from the reference model", inst.model.len())));
            }
        }
        info.label_if(inst.from_clone, "finalised a clone that diverged");
        info.label_if(inst.reused == "reset", "finalised an instance reused after reset");
        info.label_if(inst.reused == "finalize_reset", "finalised an instance reused after finalize_reset");
        info.label_if(inst.reused == "finalize_fixed_reset", "finalised an instance reused after finalize_fixed_reset");
        info.label_if(inst.updates >= 2 && inst.boundary_piece, "finalised after >=2 updates with a boundary piece");
        Ok(())
    };
    for (step, op) in c.ops.iter().enumerate() {
        let pick = |i: u16, n: usize| gen::idx(i, n);
        match op {
            HOp::Update(i, p) | HOp::Chain(i, p) => {
                let k = pick(*i, live.len());
                let fill = live[k].model.len() % b;
                let n = piece_len(p, fill, b);
                let data = gen::expand(splitmix(&mut stream), n, c.pat);
                let is_chain = matches!(op, HOp::Chain(..));
                if is_chain {
                    let inst = live.remove(k);
                    let Inst { h, model, updates, boundary_piece, from_clone, reused } = inst;
                    let h2 = guard(|| h.chain_box(&data)).map_err(|p| fail("chain:PANIC", step, p))?;
                    live.insert(k, Inst { h: h2, model, updates, boundary_piece, from_clone, reused });
                } else {
                    let inst = &mut live[k];
                    guard(|| inst.h.update(&data)).map_err(|p| fail("update:PANIC", step, format!("update with {} bytes at fill {}: {}", n, fill, p)))?;
                }
                let inst = &mut live[k];
                inst.model.extend_from_slice(&data);
                inst.updates += 1;
                let newfill = (fill + n) % b;
                if n == 0 {
                    info.label("empty piece");
                }
                if !matches!(p, Piece::Fixed(_)) || newfill == 0 {
                    inst.boundary_piece = true;
                }
                info.label_if(n > 0 && newfill == 0, "piece fills the buffer exactly");
                info.label_if(fill + n > 2 * b, "piece spans several blocks");
                info.label_if(n >= 4096, "piece of >= 4 KiB");
            }
            HOp::Clone(i) => {
                if live.len() < 6 {
                    let k = pick(*i, live.len());
                    let h = guard(|| live[k].h.box_clone()).map_err(|p| fail("clone:PANIC", step, p))?;
                    let c2 = Inst { h, model: live[k].model.clone(), updates: live[k].updates, boundary_piece: live[k].boundary_piece, from_clone: true, reused: live[k].reused };
                    live[k].from_clone = true; // the original must be unaffected by the clone as well
                    live.push(c2);
                    info.label("clone");
                }
            }
            HOp::Reset(i) => {
                let k = pick(*i, live.len());
                guard(|| live[k].h.reset()).map_err(|p| fail("reset:PANIC", step, p))?;
                live[k] = Inst { h: std::mem::replace(&mut live[k].h, (spec.make)()), model: Vec::new(), updates: 0, boundary_piece: false, from_clone: false, reused: "reset" };
            }
            HOp::FinalizeReset(i) | HOp::FinalizeFixedReset(i) => {
                let k = pick(*i, live.len());
                let fixed = matches!(op, HOp::FinalizeFixedReset(_));
                let how = if fixed { "finalize_fixed_reset" } else { "finalize_reset" };
                let got = guard(|| if fixed { live[k].h.finalize_fixed_reset() } else { live[k].h.finalize_reset() })
                    .map_err(|p| fail(&format!("{}:PANIC", how), step, p))?;
                verify(&live[k], &got, step, how, info)?;
                if live[k].updates >= 2 && live[k].boundary_piece {
                    finalized_nontrivial = true;
                }
                live[k] = Inst { h: std::mem::replace(&mut live[k].h, (spec.make)()), model: Vec::new(), updates: 0, boundary_piece: false, from_clone: false,
                    reused: if fixed { "finalize_fixed_reset" } else { "finalize_reset" } };
            }
            HOp::Finalize(i) => {
                let k = pick(*i, live.len());
                let inst = live.remove(k);
                let Inst { h, model, updates, boundary_piece, from_clone, reused } = inst;
                let got = guard(|| h.finalize_box()).map_err(|p| fail("finalize:PANIC", step, p))?;
                let shell = Inst { h: (spec.make)(), model, updates, boundary_piece, from_clone, reused };
                verify(&shell, &got, step, "finalize", info)?;
                if updates >= 2 && boundary_piece {
                    finalized_nontrivial = true;
                }
                if live.is_empty() {
                    live.push(fresh(""));
                }
            }
            HOp::New => {
                if live.len() < 6 {
                    live.push(fresh(""));
                }
            }
        }
    }
    // every instance still alive must finalise to its own model
    let n_live = live.len();
    for (k, inst) in live.into_iter().enumerate() {
        let Inst { h, model, updates, boundary_piece, from_clone, reused } = inst;
        let got = guard(|| h.finalize_box()).map_err(|p| fail("finalize:PANIC", c.ops.len() + k, p))?;
        let shell = Inst { h: (spec.make)(), model, updates, boundary_piece, from_clone, reused };
        verify(&shell, &got, c.ops.len() + k, "finalize", info)?;
        if updates >= 2 && boundary_piece {
            finalized_nontrivial = true;
        }
    }
    info.label_if(n_live >= 2, "several live instances at the end");
    info.nontrivial = finalized_nontrivial;
    info.label(name.clone());
    Ok(())
}

pub fn run_c08(ctx: &mut Ctx) {
    let specs = c08_hashes();
    for spec in specs.iter() {
        let one = vec![spec.clone()];
        let n = ctx.count(16_000, 400_000);
        let n = if spec.family == Family::Jh || spec.family == Family::Groestl { n / 4 } else { n };
        ctx.run(&format!("history/{}", spec.name), n, hhistory_strategy(vec![spec.name.clone()], 20), |c, i| hhistory_check("C08", &one, c, i));
    }
    // one very long update call (64 KiB .. 1.5 MiB) on an instance whose buffer is empty / nearly empty / nearly full,
    // finalised at once or after a few more bytes: every type, full list in every worker
    let mut sd = ctx.seed ^ 0x10c8;
    for spec in specs.iter() {
        let mut long = Vec::new();
        for first in [0u16, 7, spec.block as u16 - 1] {
            for (k, d) in [(0u8, 0i8), (0, 5), (3, -1), (15, 0), (15, 5), (23, -1)] {
                for tail in [None, Some(5u16)] {
                    let mut ops = vec![HOp::Update(0, Piece::Fixed(first)), HOp::Update(0, Piece::Huge(k, d))];
                    if let Some(t) = tail {
                        ops.push(HOp::Update(0, Piece::Fixed(t)));
                    }
                    ops.push(HOp::Finalize(0));
                    long.push(HHistory { hash: spec.name.clone(), seed: crate::engine::splitmix(&mut sd), pat: 0, ops });
                }
            }
        }
        let one = vec![spec.clone()];
        ctx.run_list(&format!("long-piece/{}", spec.name), long, move |c, i| {
            i.label("one update call of >= 64 KiB");
            hhistory_check("C08", &one, c, i)
        });
    }
    ctx.required_classes.push("one update call of >= 64 KiB".into());
    for c in ["finalised a clone that diverged", "finalised an instance reused after reset", "finalised an instance reused after finalize_reset",
        "finalised an instance reused after finalize_fixed_reset", "finalised after >=2 updates with a boundary piece", "empty piece",
        "piece fills the buffer exactly", "piece spans several blocks"] {
        ctx.required_classes.push(c.into());
    }
}

// ------------------------------------------------------------------------------------------------
// C17: counters at word boundaries (hook form) and real long streams
// ------------------------------------------------------------------------------------------------

#[derive(Clone, Debug, Serialize, Deserialize)]
pub struct C17Case {
    pub hash: String,
    pub seed: u64,
    pub pat: u8,
    /// real bytes absorbed before the jump (chunked by `chunks`)
    pub prefix: u16,
    /// boundary exponent: the counter (in the family's unit) is placed `before` units below 2^exp * mult
    pub exp: u8,
    pub mult: u8,
    /// distance below the boundary in blocks (0..6) - converted to the family's unit
    pub before_blocks: u8,
    /// real bytes absorbed after the jump
    pub suffix: u16,
    pub chunks: Vec<u16>,
    /// 0: finalize; 1: reset instead of finalizing; 2: finalize_reset; 3: finalize_fixed_reset - for 1..3 the
    /// instance is then reused for a short message and must behave like a new one
    #[serde(default)]
    pub reuse: u8,
    #[serde(default)]
    pub suffix2: u16,
}

/// Boundaries (as exponents of two, in the family's counter unit) that the formats allow.
fn c17_exponents(spec: &HashSpec) -> Vec<u8> {
    match spec.family {
        // bits; BLAKE-224/256: 64-bit counter, BLAKE-384/512: 128-bit counter
        Family::Blake => {
            if spec.block == 64 { vec![32, 33, 40, 48, 56, 63] } else { vec![32, 48, 63, 64, 65, 96, 120, 127] }
        }
        // blocks (64-bit)
        Family::Groestl => vec![8, 16, 24, 32, 40, 48, 56, 63],
        // bytes; bit length crosses 2^32 at 2^29 bytes; implementation limit 2^61 bytes
        Family::Jh => vec![29, 32, 35, 40, 53, 56, 60],
        // bytes (64-bit as implemented)
        Family::Skein => vec![32, 33, 40, 48, 56, 63],
    }
}

pub fn c17_strategy(specs: &[HashSpec]) -> BoxedStrategy<C17Case> {
    let names: Vec<String> = specs.iter().map(|s| s.name.clone()).collect();
    let exps: Vec<Vec<u8>> = specs.iter().map(c17_exponents).collect();
    let n = names.len();
    (0..n, any::<u64>(), gen::pattern(), 0u16..300, any::<u16>(), 1u8..4, 0u8..6, 0u16..900, prop::collection::vec(1u16..400, 0..6),
        (prop_oneof![3 => Just(0u8), 1 => Just(1u8), 1 => Just(2u8), 1 => Just(3u8)], 0u16..300))
        .prop_map(move |(h, seed, pat, prefix, e, mult, before_blocks, suffix, chunks, (reuse, suffix2))| {
            let ex = &exps[h];
            let exp = ex[gen::idx(e, ex.len())];
            C17Case { hash: names[h].clone(), seed, pat, prefix, exp, mult, before_blocks, suffix, chunks, reuse, suffix2 }
        })
        .boxed()
}

fn feed(h: &mut dyn FnMut(&[u8]), data: &[u8], chunks: &[u16]) {
    let mut off = 0;
    let mut i = 0;
    while off < data.len() {
        let n = if chunks.is_empty() { data.len() } else { chunks[i % chunks.len()] as usize };
        let n = n.min(data.len() - off).max(1);
        h(&data[off..off + n]);
        off += n;
        i += 1;
    }
}

pub fn c17_check(specs: &[HashSpec], c: &C17Case, info: &mut CaseInfo) -> Result<(), Fail> {
    let spec = find(specs, &c.hash).ok_or_else(|| Fail::new("HARNESS:unknown-hash", c.hash.clone()))?;
    let b = spec.block as u128;
    let name = spec.name.clone();
    let fail = |kind: &str, d: String| Fail::new(format!("C17:{}:{}", name, kind), d);
    // the boundary in the family's unit, and the unit of one block
    let unit_per_block: u128 = match spec.family {
        Family::Blake => b * 8,
        Family::Groestl => 1,
        Family::Jh | Family::Skein => b,
    };
    // format limit (exclusive) in the family's unit; a margin of 64 blocks (>= 2 KiB) keeps prefix
    // remainder + suffix inside the format
    let limit: u128 = match spec.family {
        Family::Blake => if spec.block == 64 { 1u128 << 64 } else { u128::MAX },
        Family::Groestl => 1u128 << 64,
        Family::Jh => 1u128 << 61,
        Family::Skein => 1u128 << 64,
    };
    let boundary = ((1u128 << c.exp).checked_mul(c.mult.max(1) as u128).unwrap_or(u128::MAX)).min(limit - 64 * unit_per_block);
    // counters only take values that real hashing can reach: multiples of the block unit
    // (JH counts all bytes, so the buffered prefix remainder is added on top)
    let boundary = boundary - boundary % unit_per_block;
    let jump_to = boundary.saturating_sub(c.before_blocks as u128 * unit_per_block);
    let prefix = gen::expand(c.seed, c.prefix as usize, c.pat);
    let suffix = gen::expand(c.seed ^ 0xabcdef, c.suffix as usize, c.pat);
    let suffix2 = gen::expand(c.seed ^ 0x5eed2, c.suffix2 as usize, c.pat);
    let buffered = match spec.family {
        // Skein holds a full block back: buffered = len - processed
        Family::Skein => {
            let l = prefix.len() as u128;
            if l == 0 { 0 } else { l - ((l - 1) / b) * b }
        }
        _ => prefix.len() as u128 % b,
    };
    let set_to = match spec.family {
        Family::Jh => jump_to + buffered,
        _ => jump_to,
    };
    let mut r = RefH::new(spec);
    feed(&mut |d| r.update(d), &prefix, &c.chunks);
    r.set_counter(set_to);
    feed(&mut |d| r.update(d), &suffix, &c.chunks);
    let want_counter_end = r.counter();
    let want = r.finalize();
    let got = guard(|| {
        let mut h = (spec.make)();
        feed(&mut |d| h.update(d), &prefix, &c.chunks);
        h.set_counter(set_to);
        let c0 = h.counter();
        feed(&mut |d| h.update(d), &suffix, &c.chunks);
        let c1 = h.counter();
        match c.reuse {
            0 => (c0, c1, h.finalize_box(), None),
            r => {
                // the instance is recycled after its counter crossed the boundary
                let first = match r {
                    1 => { h.reset(); None }
                    2 => Some(h.finalize_reset()),
                    _ => Some(h.finalize_fixed_reset()),
                };
                h.update(&suffix2);
                let second = h.finalize_box();
                (c0, c1, first.unwrap_or_default(), Some((r, second)))
            }
        }
    });
    let want2 = ref_digest(spec, &suffix2);
    // did the absorbed data cross the boundary? (in units, counting what the counter counts at finalisation)
    let end_units = match spec.family {
        Family::Blake => jump_to + (buffered + suffix.len() as u128) * 8,
        Family::Groestl => jump_to + (buffered + suffix.len() as u128) / b + 2,
        Family::Jh | Family::Skein => jump_to + buffered + suffix.len() as u128,
    };
    let crosses = jump_to < boundary && end_units >= boundary;
    info.label(name.clone());
    info.label_if(crosses, "absorbed data crosses the targeted boundary");
    info.label(format!("{:?} boundary 2^{}", spec.family, c.exp));
    info.nontrivial = crosses;
    match got {
        Err(p) => Err(fail("PANIC", format!("counter placed at {:#x} (boundary {:#x}), {} suffix bytes: {}", set_to, boundary, suffix.len(), p))),
        Ok((c0, c1, g, again)) => {
            if let Some((r, second)) = &again {
                info.label("instance reused after its counter crossed a boundary");
                if *second != want2 {
                    return Err(fail("REUSE", format!("after {} following a counter of {:#x}: digest of a {}-byte message differs from a new instance's", ["", "reset", "finalize_reset", "finalize_fixed_reset"][*r as usize], c1, suffix2.len())));
                }
                if *r == 1 {
                    if c1 != want_counter_end {
                        return Err(fail("COUNTER", format!("counter after absorbing {} bytes from {:#x}: {:#x}, true amount {:#x}", suffix.len(), set_to, c1, want_counter_end)));
                    }
                    return Ok(());
                }
            }
            if c0 != set_to {
                return Err(fail("HOOK", format!("counter hook did not read back: set {:#x} got {:#x}", set_to, c0)));
            }
            if c1 != want_counter_end {
                return Err(fail("COUNTER", format!("counter after absorbing {} bytes from {:#x}: {:#x}, true amount {:#x}", suffix.len(), set_to, c1, want_counter_end)));
            }
            if g != want {
                return Err(fail("WRONG", format!("digest with counter placed at {:#x} (boundary 2^{}*{}), prefix {}, suffix {}: got {} want {}", set_to, c.exp, c.mult, prefix.len(), suffix.len(), refmodels::hex(&g), refmodels::hex(&want))));
            }
            Ok(())
        }
    }
}

#[derive(Clone, Debug, Serialize, Deserialize)]
pub struct RealStream {
    pub hash: String,
    /// total length = blocks * block + tail
    pub mib: u32,
    pub tail: u16,
    pub seed: u64,
}

/// Real long stream without the hook: a repeating 1 MiB pattern through implementation and
/// reference alike.
pub fn real_stream_check(specs: &[HashSpec], c: &RealStream, info: &mut CaseInfo) -> Result<(), Fail> {
    let spec = find(specs, &c.hash).ok_or_else(|| Fail::new("HARNESS:unknown-hash", c.hash.clone()))?;
    let chunk = gen::expand(c.seed, 1 << 20, 0);
    let tail = gen::expand(c.seed ^ 1, c.tail as usize, 0);
    let mut r = RefH::new(spec);
    for _ in 0..c.mib {
        r.update(&chunk);
    }
    r.update(&tail);
    let want = r.finalize();
    let got = guard(|| {
        let mut h = (spec.make)();
        for _ in 0..c.mib {
            h.update(&chunk);
        }
        h.update(&tail);
        h.finalize_box()
    });
    info.nontrivial = true;
    info.label(format!("real stream {} MiB {}", c.mib, spec.name));
    match got {
        Err(p) => Err(Fail::new(format!("C17:{}:real:PANIC", spec.name), p)),
        Ok(g) => {
            if g != want {
                Err(Fail::new(format!("C17:{}:real:WRONG", spec.name), format!("digest of {} MiB + {} bytes differs from the reference", c.mib, c.tail)))
            } else {
                Ok(())
            }
        }
    }
}

#[derive(Clone, Debug, Serialize, Deserialize)]
pub struct OneCall {
    pub hash: String,
    /// the message is 2^exp + tail bytes long and is handed over in ONE update call
    pub exp: u8,
    pub tail: u16,
    pub seed: u64,
}

/// A message that crosses a counter word boundary inside a single `update` call (arithmetic on the
/// length of the call itself - e.g. blocks * block_bits - must not be done in a narrow type). Oracle
/// (metamorphic): the digest equals the digest of the same bytes fed in 1 MiB pieces; that piecewise path
/// is what the counter-hook cases and the real streams compare with the reference model.
pub fn one_call_check(specs: &[HashSpec], c: &OneCall, info: &mut CaseInfo) -> Result<(), Fail> {
    let spec = find(specs, &c.hash).ok_or_else(|| Fail::new("HARNESS:unknown-hash", c.hash.clone()))?;
    let len = (1usize << c.exp) + c.tail as usize;
    // cheap deterministic content: a 1 MiB pseudo-random tile repeated
    let tile = gen::expand(c.seed, 1 << 20, 0);
    let mut data = Vec::with_capacity(len);
    while data.len() < len {
        let n = (len - data.len()).min(tile.len());
        data.extend_from_slice(&tile[..n]);
    }
    // not periodic: every MiB starts with its own index (an offset computed in a narrow type re-reads earlier data,
    // which periodic content would hide)
    for (i, ch) in data.chunks_mut(1 << 20).enumerate() {
        for (b, x) in ch.iter_mut().zip((i as u64 + 1).to_le_bytes()) {
            *b ^= x;
        }
    }
    info.nontrivial = true;
    info.label(format!("single update of 2^{} bytes {}", c.exp, spec.name));
    let pieces = guard(|| {
        let mut h = (spec.make)();
        for ch in data.chunks(1 << 20) {
            h.update(ch);
        }
        h.finalize_box()
    });
    let one = guard(|| {
        let mut h = (spec.make)();
        h.update(&data);
        h.finalize_box()
    });
    match (pieces, one) {
        (Err(p), _) => Err(Fail::new(format!("C17:{}:pieces:PANIC", spec.name), p)),
        (_, Err(p)) => Err(Fail::new(format!("C17:{}:onecall:PANIC", spec.name), format!("one update call of {} bytes panicked: {}", len, p))),
        (Ok(a), Ok(b)) => {
            if a != b {
                Err(Fail::new(format!("C17:{}:onecall:WRONG", spec.name), format!("digest of {} bytes in one update call differs from the same bytes in 1 MiB pieces", len)))
            } else {
                Ok(())
            }
        }
    }
}

pub fn c17_specs() -> Vec<HashSpec> {
    c08_hashes()
}

pub fn run_c17(ctx: &mut Ctx) {
    let specs = c17_specs();
    let n = ctx.count(100_000, 1_000_000);
    let s2 = specs.clone();
    ctx.run("counter-at-boundary", n, c17_strategy(&specs), |c, i| c17_check(&s2, c, i));
    ctx.required_classes.push("absorbed data crosses the targeted boundary".into());
    // real streams
    let mut real = Vec::new();
    let quick = ctx.tier == crate::engine::Tier::Quick || ctx.scale < 0.9;
    // Groestl: 2^8 blocks (quick) / 2^16 blocks (thorough) for real: 1 MiB = 16384 64-byte blocks
    for name in ["Groestl224", "Groestl256", "Groestl384", "Groestl512"] {
        real.push(RealStream { hash: name.into(), mib: if quick { 1 } else { 9 }, tail: 77, seed: ctx.seed });
    }
    if !quick {
        // 2^32 bits = 512 MiB for BLAKE-224/256; 2^32 bytes = 4 GiB for Skein
        for name in ["Blake224", "Blake256"] {
            real.push(RealStream { hash: name.into(), mib: 512, tail: 1000, seed: ctx.seed });
        }
        for name in ["Skein256<32>", "Skein512<64>", "Skein1024<128>"] {
            real.push(RealStream { hash: name.into(), mib: 4096, tail: 1000, seed: ctx.seed });
        }
    } else {
        for name in ["Blake256", "Blake512", "Skein512<64>", "Jh256"] {
            real.push(RealStream { hash: name.into(), mib: 2, tail: 333, seed: ctx.seed });
        }
    }
    let s3 = specs.clone();
    ctx.run_list("real-stream", real, |c, i| real_stream_check(&s3, c, i));
    // one update call that itself crosses 2^32 bits (BLAKE-224/256, JH) / 2^32 bytes (Skein, thorough only)
    let mut calls = vec![
        OneCall { hash: "Blake256".into(), exp: 29, tail: 197, seed: ctx.seed },
        OneCall { hash: "Blake224".into(), exp: 29, tail: 0, seed: ctx.seed ^ 1 },
    ];
    if !quick {
        calls.push(OneCall { hash: "Jh256".into(), exp: 29, tail: 33, seed: ctx.seed ^ 2 });
        calls.push(OneCall { hash: "Skein512<64>".into(), exp: 32, tail: 100, seed: ctx.seed ^ 3 });
        calls.push(OneCall { hash: "Skein256<32>".into(), exp: 32, tail: 0, seed: ctx.seed ^ 4 });
        calls.push(OneCall { hash: "Blake512".into(), exp: 29, tail: 5, seed: ctx.seed ^ 5 });
        // a slice of more than 4 GiB in one call (byte offsets / block counts of the call held in 32 bits)
        calls.push(OneCall { hash: "Groestl256".into(), exp: 32, tail: 677, seed: ctx.seed ^ 6 });
        calls.push(OneCall { hash: "Groestl512".into(), exp: 32, tail: 5, seed: ctx.seed ^ 7 });
        calls.push(OneCall { hash: "Blake384".into(), exp: 32, tail: 64, seed: ctx.seed ^ 8 });
        calls.push(OneCall { hash: "Jh512".into(), exp: 32, tail: 1, seed: ctx.seed ^ 9 });
    }
    let s4 = specs.clone();
    ctx.run_list("one-call", calls, |c, i| one_call_check(&s4, c, i));
}
