//! C14, C15: the block-level API `c2_chacha::guts::ChaCha`.

use crate::engine::{guard, CaseInfo, Ctx, Fail};
use crate::gen::{bytes_n, HexBytes};
use crate::props::chacha_stream::key32;
use crate::refmodels::chacha::{guts_block, guts_params_from_nonce};
use c2_chacha::guts::ChaCha;
use proptest::prelude::*;
use serde::{Deserialize, Serialize};

fn counter_mix() -> BoxedStrategy<u64> {
    prop_oneof![
        2 => any::<u64>(),
        1 => 0u64..16,
        // low word within a few of 2^32 (carry lands in each of the four lanes), any high word
        4 => (any::<u32>(), 0u64..=8).prop_map(|(hi, k)| (((hi as u64) << 32) | 0xffff_ffff).wrapping_sub(k).wrapping_add(4)),
        2 => (0u64..8, 0u64..=8).prop_map(|(j, k)| ((j + 1) << 32).wrapping_sub(k)),
        // counter within a few of 2^64
        3 => (0u64..=8).prop_map(|k| u64::MAX - k),
        1 => (0u32..64).prop_map(|b| 1u64 << b),
    ]
    .boxed()
}

#[derive(Clone, Debug, Serialize, Deserialize)]
pub struct C14Case {
    pub key: HexBytes,
    pub nonce: HexBytes,
    /// None: use the parameters `new` derives from the nonce
    pub counter: Option<u64>,
    pub stream: Option<u64>,
    pub drounds: u32,
    pub reps: u8,
}

pub fn c14_strategy() -> BoxedStrategy<C14Case> {
    (
        bytes_n(32),
        prop_oneof![bytes_n(8), bytes_n(12)],
        prop_oneof![1 => Just(None), 8 => counter_mix().prop_map(Some)],
        prop_oneof![1 => Just(None), 3 => any::<u64>().prop_map(Some), 1 => Just(Some(u64::MAX)), 1 => Just(Some(0))],
        // "any number of double rounds": mostly the 0..=10 of the standard variants, sometimes far more
        prop_oneof![12 => 0u32..=10, 2 => 11u32..=40, 1 => Just(16u32), 1 => Just(32u32), 1 => 41u32..=300],
        1u8..=3,
    )
        .prop_map(|(key, nonce, counter, stream, drounds, reps)| C14Case { key, nonce, counter, stream, drounds, reps })
        .boxed()
}

pub fn c14_check(c: &C14Case, info: &mut CaseInfo) -> Result<(), Fail> {
    let key = key32(&c.key);
    let (mut ctr, mut sid) = guts_params_from_nonce(&c.nonce.0);
    let fail = |kind: &str, d: String| Fail::new(format!("C14:{}", kind), d);
    let r = guard(|| {
        let mut a = ChaCha::new(&key, &c.nonce.0);
        if let Some(x) = c.counter {
            a.set_stream_param(0, x);
        }
        if let Some(x) = c.stream {
            a.set_stream_param(1, x);
        }
        a
    });
    let mut a = match r {
        Ok(a) => a,
        Err(p) => return Err(fail("new:PANIC", p)),
    };
    if let Some(x) = c.counter {
        ctr = x;
    }
    if let Some(x) = c.stream {
        sid = x;
    }
    if c.drounds <= 10 {
        info.label(format!("drounds={}", c.drounds));
    } else {
        info.label("more than 10 double rounds");
        info.label_if(c.drounds >= 16, "16 or more double rounds");
    }
    for rep in 0..c.reps {
        let lo = ctr as u32;
        info.label_if(lo > 0xffff_fffc, "low-word carry inside refill4");
        info.label_if(ctr > u64::MAX - 4, "counter wraps 2^64");
        let mut b = a.clone();
        let mut out4 = [0u8; 256];
        let mut out1 = [0u8; 256];
        if let Err(p) = guard(|| a.refill4(c.drounds, &mut out4)) {
            return Err(fail("refill4:PANIC", format!("refill4 at counter {:#x} drounds {} panicked: {}", ctr, c.drounds, p)));
        }
        for i in 0..4 {
            let mut blk = [0u8; 64];
            if let Err(p) = guard(|| b.refill(c.drounds, &mut blk)) {
                return Err(fail("refill:PANIC", format!("refill at counter {:#x} drounds {} panicked: {}", ctr.wrapping_add(i), c.drounds, p)));
            }
            out1[64 * i as usize..64 * i as usize + 64].copy_from_slice(&blk);
            let want = guts_block(&key, ctr.wrapping_add(i), sid, c.drounds);
            if blk != want {
                return Err(fail("refill:WRONG", format!("refill block for counter {:#x} stream {:#x} drounds {} differs from the reference (rep {})", ctr.wrapping_add(i), sid, c.drounds, rep)));
            }
            let got = b.get_stream_param(0);
            if got != ctr.wrapping_add(i + 1) {
                return Err(fail("refill:COUNTER", format!("after refill at {:#x}: counter {:#x}, want {:#x}", ctr.wrapping_add(i), got, ctr.wrapping_add(i + 1))));
            }
            if b.get_stream_param(1) != sid {
                return Err(fail("refill:STREAMID", format!("refill at counter {:#x} changed the stream id {:#x} -> {:#x}", ctr.wrapping_add(i), sid, b.get_stream_param(1))));
            }
        }
        if out4 != out1 {
            let pos = out4.iter().zip(out1.iter()).position(|(x, y)| x != y).unwrap();
            // is refill4 wrong against the reference, or only different?
            return Err(fail("refill4:WRONG", format!("refill4 at counter {:#x} stream {:#x} drounds {}: byte {} (block {}) differs from four refills", ctr, sid, c.drounds, pos, pos / 64)));
        }
        let got = a.get_stream_param(0);
        if got != ctr.wrapping_add(4) {
            return Err(fail("refill4:COUNTER", format!("after refill4 at {:#x}: counter {:#x}, want {:#x}", ctr, got, ctr.wrapping_add(4))));
        }
        if a.get_stream_param(1) != sid {
            return Err(fail("refill4:STREAMID", format!("refill4 at counter {:#x} changed the stream id {:#x} -> {:#x}", ctr, sid, a.get_stream_param(1))));
        }
        if !(a == b) {
            return Err(fail("refill4:STATE", format!("state after refill4 at {:#x} differs from the state after four refills", ctr)));
        }
        ctr = ctr.wrapping_add(4);
    }
    info.nontrivial = true;
    Ok(())
}

// ------------------------------------------------------------------------------------------------

#[derive(Clone, Debug, Serialize, Deserialize)]
pub enum GOp {
    Set(u8, u64),
    Refill(u8),
    Refill4(u8),
    Get,
    /// compare with a state created directly from those values
    Fresh,
}

#[derive(Clone, Debug, Serialize, Deserialize)]
pub struct C15Seq {
    pub key: HexBytes,
    pub nonce: HexBytes,
    pub ops: Vec<GOp>,
}

fn value_mix() -> BoxedStrategy<u64> {
    prop_oneof![4 => any::<u64>(), 2 => counter_mix(), 1 => Just(0u64), 1 => Just(u64::MAX),
        1 => any::<u32>().prop_map(|x| (x as u64) << 32), 1 => any::<u32>().prop_map(|x| x as u64)]
    .boxed()
}

pub fn c15_seq_strategy() -> BoxedStrategy<C15Seq> {
    let op = prop_oneof![
        5 => (0u8..2, value_mix()).prop_map(|(p, v)| GOp::Set(p, v)),
        3 => (0u8..=10).prop_map(GOp::Refill),
        1 => (0u8..=10).prop_map(GOp::Refill4),
        2 => Just(GOp::Get),
        2 => Just(GOp::Fresh),
    ];
    (bytes_n(32), prop_oneof![bytes_n(8), bytes_n(12)], prop::collection::vec(op, 1..14))
        .prop_map(|(key, nonce, ops)| C15Seq { key, nonce, ops })
        .boxed()
}

fn nonce12(ctr: u64, sid: u64) -> [u8; 12] {
    let mut n = [0u8; 12];
    n[0..4].copy_from_slice(&((ctr >> 32) as u32).to_le_bytes());
    n[4..12].copy_from_slice(&sid.to_le_bytes());
    n
}

pub fn c15_seq_check(c: &C15Seq, info: &mut CaseInfo) -> Result<(), Fail> {
    let key = key32(&c.key);
    let (mut ctr, mut sid) = guts_params_from_nonce(&c.nonce.0);
    let fail = |kind: &str, d: String| Fail::new(format!("C15:{}", kind), d);
    let mut a = match guard(|| ChaCha::new(&key, &c.nonce.0)) {
        Ok(a) => a,
        Err(p) => return Err(fail("new:PANIC", p)),
    };
    let mut sets = 0;
    for (step, op) in c.ops.iter().enumerate() {
        let r = guard(|| -> Result<(), Fail> {
            match op {
                GOp::Set(p, v) => {
                    a.set_stream_param(*p as u32, *v);
                    if *p == 0 { ctr = *v } else { sid = *v }
                    sets += 1;
                }
                GOp::Refill(d) => {
                    let mut blk = [0u8; 64];
                    a.refill(*d as u32, &mut blk);
                    if blk != guts_block(&key, ctr, sid, *d as u32) {
                        return Err(fail("output:WRONG", format!("step {}: refill output for counter {:#x} stream {:#x} drounds {} differs from the reference", step, ctr, sid, d)));
                    }
                    ctr = ctr.wrapping_add(1);
                }
                GOp::Refill4(d) => {
                    let mut blk = [0u8; 256];
                    a.refill4(*d as u32, &mut blk);
                    for i in 0..4u64 {
                        if blk[64 * i as usize..64 * i as usize + 64] != guts_block(&key, ctr.wrapping_add(i), sid, *d as u32) {
                            return Err(fail("output4:WRONG", format!("step {}: refill4 block {} for counter {:#x} stream {:#x} differs from the reference", step, i, ctr, sid)));
                        }
                    }
                    ctr = ctr.wrapping_add(4);
                }
                GOp::Get => {}
                GOp::Fresh => {
                    // a state created directly with those values
                    let mut f = ChaCha::new(&key, &nonce12(ctr, sid));
                    if ctr as u32 != 0 {
                        f.set_stream_param(0, ctr);
                    }
                    if !(f == a) {
                        return Err(fail("fresh:STATE", format!("step {}: state differs from ChaCha::new with counter {:#x} stream {:#x}", step, ctr, sid)));
                    }
                    if !(f.stream64_eq(&a) && a.stream64_eq(&f) && f.stream32_eq(&a) && a.stream32_eq(&f)) {
                        return Err(fail("fresh:STREAMEQ", format!("step {}: stream predicates false for an identical state", step)));
                    }
                }
            }
            let (g0, g1) = (a.get_stream_param(0), a.get_stream_param(1));
            if g0 != ctr || g1 != sid {
                return Err(fail("get:WRONG", format!("step {} ({:?}): get_stream_param = ({:#x}, {:#x}), model ({:#x}, {:#x})", step, op, g0, g1, ctr, sid)));
            }
            Ok(())
        });
        match r {
            Err(p) => return Err(fail("PANIC", format!("step {} ({:?}) panicked: {}", step, op, p))),
            Ok(Err(f)) => return Err(f),
            Ok(Ok(())) => {}
        }
    }
    // key untouched: the next block must still be the reference block for this key
    let mut blk = [0u8; 64];
    match guard(|| a.refill(10, &mut blk)) {
        Err(p) => return Err(fail("PANIC", format!("final refill panicked: {}", p))),
        Ok(()) => {
            if blk != guts_block(&key, ctr, sid, 10) {
                return Err(fail("final:WRONG", format!("final block for counter {:#x} stream {:#x} differs from the reference", ctr, sid)));
            }
        }
    }
    info.nontrivial = sets >= 1;
    info.label_if(sets >= 2, "several sets");
    Ok(())
}

#[derive(Clone, Debug, Serialize, Deserialize)]
pub struct C15Pair {
    pub key: HexBytes,
    pub counter: u64,
    pub stream: u64,
    /// 0 = identical, 1..=12 = differ in exactly that word (1..8 key words, 9..12 d words),
    /// 13 = differ in counter low word only via refills, 14 = unrelated,
    /// 15 = two key words (chosen by `delta`) xored with the same value, 16 = all four words of one key half
    /// xored with the same value, 17 = two key words swapped, 18 = both stream-id words xored with the same value
    pub diff: u8,
    pub delta: u32,
    pub other: HexBytes,
    pub refills: u8,
}

pub fn c15_pair_strategy() -> BoxedStrategy<C15Pair> {
    (bytes_n(32), value_mix(), any::<u64>(), 0u8..=18, prop_oneof![any::<u32>(), (0u32..32).prop_map(|b| 1 << b)], bytes_n(48), 0u8..3)
        .prop_map(|(key, counter, stream, diff, delta, other, refills)| C15Pair {
            key, counter, stream, diff, delta: if delta == 0 { 1 } else { delta }, other, refills,
        })
        .boxed()
}

pub fn c15_pair_check(c: &C15Pair, info: &mut CaseInfo) -> Result<(), Fail> {
    let key_a = key32(&c.key);
    let mut key_b = key_a;
    let (mut ctr_b, mut sid_b) = (c.counter, c.stream);
    match c.diff {
        0 | 13 => {}
        1..=8 => {
            let w = (c.diff - 1) as usize;
            let x = u32::from_le_bytes(key_b[4 * w..4 * w + 4].try_into().unwrap()) ^ c.delta;
            key_b[4 * w..4 * w + 4].copy_from_slice(&x.to_le_bytes());
        }
        9 => ctr_b ^= c.delta as u64,
        10 => ctr_b ^= (c.delta as u64) << 32,
        11 => sid_b ^= c.delta as u64,
        12 => sid_b ^= (c.delta as u64) << 32,
        15 | 16 | 17 => {
            let mut w: Vec<u32> = (0..8).map(|i| u32::from_le_bytes(key_b[4 * i..4 * i + 4].try_into().unwrap())).collect();
            let i = (c.delta as usize >> 3) % 8;
            let j = (i + 1 + (c.delta as usize >> 6) % 7) % 8;
            match c.diff {
                15 => { w[i] ^= c.delta; w[j] ^= c.delta; }
                16 => { let h = 4 * (i / 4); for k in h..h + 4 { w[k] ^= c.delta; } }
                _ => { w.swap(i, j); }
            }
            for k in 0..8 {
                key_b[4 * k..4 * k + 4].copy_from_slice(&w[k].to_le_bytes());
            }
        }
        18 => sid_b ^= (c.delta as u64) | ((c.delta as u64) << 32),
        _ => {
            key_b.copy_from_slice(&c.other.0[..32]);
            ctr_b = u64::from_le_bytes(c.other.0[32..40].try_into().unwrap());
            sid_b = u64::from_le_bytes(c.other.0[40..48].try_into().unwrap());
        }
    }
    let fail = |kind: &str, d: String| Fail::new(format!("C15:{}", kind), d);
    let r = guard(|| -> Result<(), Fail> {
        let mut a = ChaCha::new(&key_a, &nonce12(0, 0));
        a.set_stream_param(0, c.counter);
        a.set_stream_param(1, c.stream);
        let mut b = ChaCha::new(&key_b, &nonce12(0, 0));
        b.set_stream_param(0, ctr_b);
        b.set_stream_param(1, sid_b);
        let mut ctr_a = c.counter;
        let n = if c.diff == 13 { c.refills.max(1) } else { c.refills };
        for _ in 0..n {
            let mut blk = [0u8; 64];
            a.refill(1, &mut blk);
            ctr_a = ctr_a.wrapping_add(1);
        }
        let keys_eq = key_a == key_b;
        let want64 = keys_eq && c.stream == sid_b;
        let want32 = want64 && (ctr_a >> 32) == (ctr_b >> 32);
        let want_eq = want64 && ctr_a == ctr_b;
        let got = (a.stream64_eq(&b), b.stream64_eq(&a), a.stream32_eq(&b), b.stream32_eq(&a), a == b);
        if got.0 != want64 || got.1 != want64 {
            return Err(fail("stream64_eq:WRONG", format!("diff class {}: stream64_eq = {}/{} want {}", c.diff, got.0, got.1, want64)));
        }
        if got.2 != want32 || got.3 != want32 {
            return Err(fail("stream32_eq:WRONG", format!("diff class {}: stream32_eq = {}/{} want {} (counters {:#x} {:#x})", c.diff, got.2, got.3, want32, ctr_a, ctr_b)));
        }
        if got.4 != want_eq {
            return Err(fail("eq:WRONG", format!("diff class {}: == is {} want {}", c.diff, got.4, want_eq)));
        }
        if !(a.stream64_eq(&a) && a.stream32_eq(&a)) {
            return Err(fail("reflexive:WRONG", "predicate not reflexive".to_string()));
        }
        Ok(())
    });
    info.label(format!("diff={}", c.diff));
    info.nontrivial = (1..=13).contains(&c.diff) || (15..=18).contains(&c.diff);
    match r {
        Err(p) => Err(fail("pair:PANIC", p)),
        Ok(r) => r,
    }
}

pub fn run_c14(ctx: &mut Ctx) {
    let n = ctx.count(1_000_000, 3_000_000);
    ctx.run("refill4-vs-refill", n, c14_strategy(), c14_check);
    ctx.required_classes.push("low-word carry inside refill4".into());
    ctx.required_classes.push("counter wraps 2^64".into());
    ctx.required_classes.push("drounds=0".into());
    ctx.required_classes.push("more than 10 double rounds".into());
}

pub fn run_c15(ctx: &mut Ctx) {
    let n = ctx.count(300_000, 10_000_000);
    ctx.run("set-get-sequences", n, c15_seq_strategy(), c15_seq_check);
    let n = ctx.count(400_000, 12_000_000);
    ctx.run("stream-eq-pairs", n, c15_pair_strategy(), c15_pair_check);
    for d in 0..=18 {
        ctx.required_classes.push(format!("diff={}", d));
    }
}
