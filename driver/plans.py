"""Per-property job plans: which (configuration, profile, emulated host level) workers a check runs."""

LEVELS = ["sse2", "ssse3", "sse41", "avx", "avx2"]

COMMON_ASSUMPTIONS = [
    "reference models (harness/src/refmodels) are trusted after validation against published vectors and the committed KAT files at every worker start",
    "results hold for the explored cases only (counts above); no proof of absence",
    "back ends are those an AVX2 + AES-NI x86-64 host can execute; cargo, rustc and the pinned registry crates are trusted",
]


def J(config, profile="fast", level="host", scale=1.0, **kw):
    d = {"config": config, "profile": profile, "level": level, "scale": scale}
    d.update(kw)
    return d


def levels(config="std", profile="fast", scale=1.0):
    return [J(config, profile, l, scale) for l in LEVELS]


def jobs_c01(tier):
    if tier == "quick":
        return [J("std", "fast"), J("std", "checked")] + levels(scale=0.1)
    return [J("std", "fast"), J("std", "checked"), J("std", "dev", scale=0.05)] + levels(scale=0.25) + [J("nosimd", "fast", scale=0.25)]


def jobs_c02(tier):
    if tier == "quick":
        return [J("std", "fast"), J("std", "checked")] + levels(scale=0.15) + [J("nosimd", "checked", scale=0.15)]
    return [J("std", "fast"), J("std", "checked"), J("std", "dev", scale=0.05)] + levels(scale=0.25) + [J("nosimd", "checked", scale=0.25)]


PLANS = {
    "C01": {
        "jobs": jobs_c01,
        "rule": "generated (variant, key, nonce, preceding partial read, byte position from a mixture of small / uniform / "
                "boundary families around block 2^32, 2^38 and 2^64, length biased to 0,1,63..65,255..257,..., data, buffer offset); "
                "oracle: data_out == data_in XOR reference ChaCha keystream at that position, bytes outside the slice untouched; "
                "non-trivial = request length >= 1; distinct = FNV-1a of (configuration, serialized case)",
    },
    "C02": {
        "jobs": jobs_c02,
        "rule": "generated histories (0..24 ops) over seek(7 integer types; relative / block-boundary / absolute / end-relative "
                "targets), negative seek, apply(fixed | to-block-end+-d | to-stream-end+-d), apply-seek-back-apply, current_pos(7 types) "
                "interpreted against an absolute-position model with the reference keystream; non-trivial = history contains a "
                "mid-block seek followed by an apply, an apply after an apply that ended mid-block, a backwards seek, or an operation "
                "after the final IETF block was read; distinct = FNV-1a of (configuration, serialized history)",
    },
    "C11": {
        "jobs": jobs_c02,
        "rule": "generated histories (0..16 ops) weighted towards the end of the keystream (2^38 bytes IETF; 2^64 and block 2^32 for "
                "the 64-bit-counter variants): seeks within +-700 bytes of the limit and beyond it in every integer type, requests ending "
                "exactly at / one or two bytes short of / past the limit; oracle: in-range requests succeed with reference bytes, "
                "out-of-range requests return Err with data, position and later output unchanged, no panic; non-trivial = history has a "
                "request or seek rejected at the end of the keystream followed by a successful read, or a request ending exactly at "
                "the limit; distinct = FNV-1a of (configuration, serialized history)",
    },
}
