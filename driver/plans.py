"""Per-property job plans: which (configuration, profile, emulated host level) workers a check runs."""

LEVELS = ["sse2", "ssse3", "sse41", "avx", "avx2"]

COMMON_ASSUMPTIONS = [
    "reference models (harness/src/refmodels) are trusted after validation against published vectors and the committed KAT files at every worker start",
    "results hold for the explored cases only (counts above); no proof of absence",
    "back ends are those an AVX2 + AES-NI x86-64 host can execute; cargo, rustc and the pinned registry crates are trusted",
]


def J(config, profile="fast", level="host", scale=1.0, **kw):
    d = {"config": config, "profile": profile, "level": level, "scale": scale}
    d.update(kw)
    return d


def levels(config="std", profile="fast", scale=1.0):
    return [J(config, profile, l, scale) for l in LEVELS]


def jobs_c01(tier):
    if tier == "quick":
        return [J("std", "fast"), J("std", "checked")] + levels(scale=0.1)
    return [J("std", "fast"), J("std", "checked"), J("std", "dev", scale=0.05)] + levels(scale=0.25) + [J("nosimd", "fast", scale=0.25)]


def jobs_c02(tier):
    if tier == "quick":
        return [J("std", "fast"), J("std", "checked")] + levels(scale=0.15) + [J("nosimd", "checked", scale=0.15)]
    return [J("std", "fast"), J("std", "checked"), J("std", "dev", scale=0.05)] + levels(scale=0.25) + [J("nosimd", "checked", scale=0.25)]


def jobs_c14(tier):
    if tier == "quick":
        return [J("std", "fast"), J("std", "checked")] + levels(scale=0.5) + [J("nosimd", "checked", scale=0.5)]
    return [J("std", "fast"), J("std", "checked"), J("std", "dev", scale=0.05)] + levels(scale=0.5) + levels(profile="checked", scale=0.2) + [J("nosimd", "checked", scale=0.5)]


def fam(config, profile, only, scale=1.0, level="host"):
    return J(config, profile, level, scale, args={"--only": only}, tag=only.replace("<", "").replace(">", "").replace(",", "_"))


def jobs_conf(tier, dispatching=False, static=()):
    # one family per property; host level, fast + checked. BLAKE and JH dispatch over ppv-lite86 back ends:
    # they are also run on every emulated level and the portable build (the full matrix is C03's business)
    if tier == "quick":
        js = [J("std", "fast", args={"--primary": "1"}), J("std", "checked", scale=0.5)]
    else:
        # the thorough volume is split over shards (derived seeds) so that it runs in parallel; the multi-MiB
        # enumerated cases are run by the primary worker only
        js = [J("std", "fast", scale=0.25, shard=i, args=({"--primary": "1"} if i == 0 else {})) for i in range(4)]
        js += [J("std", "checked", scale=0.25, shard=i) for i in range(2)]
        js.append(J("std", "dev", scale=0.02))
    if dispatching:
        js += levels("std", "fast", 0.15) + [J("nosimd", "fast", scale=0.15)]
    # Groestl chooses among three implementations (AES-NI, SSSE3, SSE2); under `std` the host always takes AES-NI, the
    # other two are reached through the compile-time dispatch of the no-std build
    js += [J(c, "fast", scale=0.15) for c in static]
    return js


def jobs_c08(tier):
    js = []
    for only in ["Blake", "Groestl", "Jh", "Skein"]:
        js.append(fam("std", "fast", only))
        js.append(fam("std", "checked", only, scale=0.5))
    # the compile-time dispatch (no-std) builds have their own block-feeding wrappers
    js.append(J("nostd-sse2", "fast", scale=0.15))
    js.append(J("nostd-avx2", "fast", scale=0.15))
    js.append(J("nostd-native", "fast", scale=0.15))
    return js


def jobs_c17(tier):
    js = [fam("std", "fast", "counter"), fam("std", "checked", "counter")]
    js.append(fam("std", "fast", "real-stream"))
    js.append(fam("std", "fast", "one-call"))
    js.append(fam("std", "checked", "one-call"))
    return js


def jobs_tf(tier):
    js = [J("std", "fast"), J("std", "checked"), J("nounroll", "fast"), J("nounroll", "checked")]
    if tier != "quick":
        js += [J("std", "dev", scale=0.02), J("nounroll", "dev", scale=0.02)]
    return js


def jobs_c19(tier):
    js = [J("std", "fast"), J("std", "checked")]
    if tier != "quick":
        js.append(J("std", "dev", scale=0.05))
    return js


def jobs_vec(tier, program=True):
    # nostd-avx2: the whole build has +ssse3/+avx2 statically enabled while every Machine (also SSE2) is instantiated
    js = levels("std", "fast") + [J("nosimd", "fast"), J("std", "checked", "host", 0.25), J("nosimd", "checked", "host", 0.5),
                                  J("nostd-avx2", "fast", "host", 0.15), J("nostd-ssse3", "fast", "host", 0.15),
                                  # -C target-cpu=native: every compile-time target_feature arm the host can execute
                                  J("native", "fast", "host", 0.15), J("nostd-native", "fast", "host", 0.15)]
    if program:
        js.append(J("std", "fast", "host", args={"--only": "program"}, tag="program"))
    if tier != "quick":
        js += [J("std", "dev", "host", 0.01), J("nosimd", "dev", "host", 0.02)]
    return js


NOSTD = ["nostd-sse2", "nostd-ssse3", "nostd-sse41", "nostd-avx", "nostd-avx2"]


def jobs_c03(tier):
    js = [J("std", "fast", "host")] + levels("std", "fast") + [J("nosimd", "fast"), J("nosimd", "checked", scale=0.5)]
    js += [J(c, "fast") for c in NOSTD]
    js += [J("native", "fast", "host", 0.5), J("nostd-native", "fast", "host", 0.5)]
    js += [J("std", "checked", "sse2", 0.5), J("std", "checked", "avx2", 0.5)]
    if tier != "quick":
        js += levels("std", "checked", 0.5) + [J("std", "dev", "host", 0.02), J("nosimd", "dev", "host", 0.02)]
    return js


def jobs_c16(tier):
    js = [J("std", "fast", "host", progress=True), J("std", "checked", "host", 0.5, progress=True)]
    js += [J("std", "fast", l, 0.3, progress=True) for l in LEVELS]
    js += [J("nosimd", "fast", "host", 0.5, progress=True)]
    js += [J("nostd-native", "fast", "host", 0.3, progress=True)]
    if tier != "quick":
        js += [J("std", "dev", "host", 0.05, progress=True)]
    return js


def jobs_c18(tier):
    js = [fam("std", "fast", "concurrent-cold"), fam("std", "fast", "concurrent-sustained"), fam("std", "fast", "interleaved"),
          fam("std", "checked", "interleaved", 0.5),
          # compile-time dispatch builds have their own one-time initialisation paths
          fam("nostd-sse2", "fast", "concurrent-cold", 0.7), fam("nostd-avx2", "fast", "concurrent-cold", 0.3)]
    return js


def jobs_c20(tier):
    js = [J("std", "fast"), J("nosimd", "fast"), J("nounroll", "fast"), J("nostd-sse2", "fast")]
    if tier != "quick":
        js += [J(c, "fast") for c in NOSTD[1:]] + [J("nostd-native", "fast"), J("nosimd", "checked"), J("nounroll", "checked")]
    return js


def c20_driver_part(tier, seed, known):
    import c20
    return c20.driver_part(tier, seed, known)


PLANS = {
    "C20": {
        "jobs": jobs_c20,
        "driver_part": c20_driver_part,
        "build_failure_is_violation": True,
        "rule": "enumerated (exhaustive): for each of the 9 workspace crates every distinct effective feature set (power set of the declared "
                "features incl. the implicit features of optional dependencies, closed under feature -> feature edges; lattice read from "
                "cargo metadata at run time) plus the default set, each checked with cargo check --no-default-features --features <set>; "
                "oracle: exit status 0. Generated: in each build configuration that changes which code runs (default, no_simd, no_unroll, "
                "no-std compile-time dispatch) the ChaCha / BLAKE / JH / Groestl / Skein / Threefish generators are compared with the "
                "reference models. Non-trivial = a feature set other than the defaults resp. a message/request of >= 1 byte; distinct = "
                "effective feature set resp. FNV-1a of (configuration, case)",
    },
    "C18": {
        "jobs": jobs_c18,
        "parallel": 2,
        "rule": "(a) concurrent first use, randomised stress (the schedule is not controlled): generated cases of 2..48 threads, each with a "
                "spin count before its first call and 1..3 short jobs over 34 algorithms (23 hashes incl. several Skein output sizes per state size, 7 ciphers, 3 Threefish "
                "sizes, block API), 70 % of the threads making their first call into one shared target or (half of the cases) into "
                "siblings of it - other variants of the family / other output sizes of the same Skein state size; sustained cases of "
                "8..32 threads pushing 0.5-2 MiB each through one algorithm; churn cases of 4..16 threads each running 50..400 tiny jobs "
                "alternating between 2..3 sibling algorithms; every case runs in a freshly started child process with all threads released by a "
                "barrier; oracle: every output equals the single-threaded one-at-a-time result (itself checked against the reference "
                "model for inputs <= 8 KiB). (b) interleaving, deterministic: 2..6 instances of equal or different types (hashes and "
                "ciphers) receive 1..39 boundary-relative pieces in generated interleaved order, in one thread or distributed over 2..4 "
                "owner threads; cipher instances keyed independently, identically, or identically except for nonce bytes 0..8 / 8..16 / "
                "16..24 / one byte of key or nonce; oracle: every instance equals its own one-at-a-time result. Non-trivial = >= 2 threads share a "
                "first-call target, a churn case, resp. >= 2 instances interleaved; distinct = FNV-1a of (configuration, case)",
        "assumptions": COMMON_ASSUMPTIONS + ["part (a) is a stress test: thread schedules are produced by the OS, not enumerated; a narrow race window can be missed"],
    },
    "C16": {
        "jobs": jobs_c16,
        "fuzz": [{"target": "bytes_api", "runs": 1500000, "max_len": 64}],
        "rule": "APIs: apply_keystream and NewCipher::new for the 7 cipher types, update and finalize_into for 17/16 hash types, Threefish "
                "encrypt/decrypt (3 sizes, key and block), guts ChaCha::new/refill/refill4, JH Compressor::input, read_le/read_be/"
                "write_le/write_be of the five StoreBytes vector types on every back end. Exhaustive: every API x start alignment 0..63 "
                "(between canaries) + slice ending on the last byte before a PROT_NONE page + slice starting on the first byte after one, "
                "lengths rotating through 1,2,15..17,31,63..65,127..129,255..257,1000,4096..12301; every variable-length API with one call of "
                "64 KiB .. 1.3 MiB (after a short first call) at aligned and unaligned starts, against both guard pages and across a "
                "page boundary; generated: random (API, placement, length <= 4000, "
                "content). Oracle: result equals the result on an ordinary heap buffer, canaries intact, process survives (a fault is "
                "attributed to its case through the progress file and replayed in a fresh process). Non-trivial = length >= 1 and "
                "(address not 16-byte aligned or slice abuts a guard page); distinct = FNV-1a of (configuration, case)",
    },
    "C03": {
        "jobs": jobs_c03,
        "build_failure_is_violation": True,
        "rule": "the C01 (7 cipher types), C14 (block API), BLAKE x4 and JH x4 generators, every case compared with the reference model, "
                "executed under: run-time dispatch with the host level forced to SSE2/SSSE3/SSE4.1/AVX/AVX2 through the hook plus the real "
                "host, the portable no_simd build, the five no-std compile-time dispatch arms (-C target-feature) and std / no-std builds "
                "with -C target-cpu=native; plus the public "
                "generic bodies jh f8_impl::<M> and blake u32x4/u64x4::put_block::<M> instantiated for every Machine on generated "
                "arbitrary chaining values, blocks and counters against the reference compression functions; a configuration that does "
                "not build is a violation; non-trivial = request/message of >= 1 byte resp. every direct case; distinct = FNV-1a of "
                "(configuration, case)",
    },
    "C12": {
        "jobs": jobs_vec,
        "fuzz": [{"target": "vec_program", "runs": 3000000, "max_len": 512}],
        "rule": "one generated operand set (four 512-bit values: uniform 60 %, zero, all-ones, single bit, complement of a single bit, "
                "byte ramp, 0x80/0x7f bytes, one all-ones word) is run through every (vector type, operation) cell required by the Machine "
                "trait bounds - 10 types x {xor, xor_assign, and, or, not, andnot, rotate_each_word_right 7/8/11/12/16/20/24/25 (+32 for "
                "64/128-bit words), add, add_assign, bswap, shuffle1230/2301/3012, shuffle_lane_words*, swap1..64} = 202 cells - on each of "
                "the back ends SSE2, SSSE3, SSE4.1, AVX, AVX2 and portable, the type-level Machines also instantiated in builds with "
                "+ssse3, +avx2 and -C target-cpu=native enabled at compile time (std and no-std); plus generated straight-line programs (1..24 ops over four 512-bit "
                "registers: arithmetic/bitwise/rotate/bswap/shuffle/swap ops on the u32x4x4, u64x2x4, u128x4 views, lane extract/insert, "
                "to_lanes/from_lanes, transpose4) executed on every back end; oracle: byte-level scalar model of the named operation; "
                "non-trivial = first operand not all-zero; distinct = FNV-1a of (back end, operand set)",
    },
    "C13": {
        "jobs": lambda tier: jobs_vec(tier, False),
        "rule": "one generated operand set is run through 163 data-movement cells per back end: unpack/into storage, to_lanes, from_lanes, "
                "Machine::vec, vzip, insert/extract at every element index (words and whole lanes), transpose4, to_scalars, read_le/"
                "read_be/write_le/write_be and their round trips, storage views (Into<[u32;N]|[u64;N]|[u128;N]>, From<[u32;4]|[u64;4]>, "
                "new128/split128, Default, PartialEq incl. operands differing only in an upper lane, Into conversions between the vector types of one concrete x86 back end) against little-endian word packing "
                "of one canonical byte string; non-trivial = first operand not all-zero; distinct = FNV-1a of (back end, operand set)",
    },
    "C09": {
        "jobs": jobs_tf,
        "rule": "generated (size in 256/512/1024, key uniform/structured or with the key-schedule parity word forced to 0 / all-ones, two "
                "tweak words from uniform/0/all-ones/single-bit, block, construction via with_tweak or new); oracle: encrypt_block == "
                "reference Threefish (forward permutation, subkeys on the fly); the same generated cases run in the default and the "
                "no_unroll build, overflow-checked and optimised; every case is non-trivial; distinct = FNV-1a of (configuration, case)",
    },
    "C10": {
        "jobs": jobs_tf,
        "rule": "same generator as C09; oracle: decrypt(encrypt(x)) == x, encrypt(decrypt(x)) == x and decrypt_block == reference inverse "
                "(so a pair of compensating errors is visible); default and no_unroll builds; every case is non-trivial; distinct = FNV-1a of "
                "(configuration, case)",
    },
    "C19": {
        "jobs": jobs_c19,
        "rule": "one generated operand set (two 512-bit values uniform/structured incl. all-ones and single-bit, rotate amounts reduced into "
                "1..bits-1, word rotation 0..3, lane index, replacement word) evaluates every public constructor/method cell of u32x4, "
                "u64x4, u128x1, u128x2, u32x4x4 (84 cells; the two crypto-simd traits also called through a generic bound) against the byte-level scalar model; optimised and overflow-checked profiles; "
                "non-trivial = first operand not all-zero; distinct = FNV-1a of (configuration, case)",
    },
    "C04": {
        "jobs": lambda tier: jobs_conf(tier, True),
        "rule": "BLAKE-224/256/384/512 x message: exhaustive sweep of every length 0..=3*block+2 (all six content patterns at the "
                "boundary residues), generated lengths up to 8 blocks biased to k*block-1/k*block/k*block+1, a few long messages; "
                "content uniform / 00 / ff / 0x80 / counter / single bit; oracle: digest == reference BLAKE (written from the "
                "specification); every case is non-trivial; distinct = FNV-1a of (configuration, hash, message descriptor)",
    },
    "C05": {
        "jobs": jobs_conf,
        "rule": "Skein-256/512/1024 x 19 output sizes N in {1,7,8,16,20,28,31,32,33,48,64,65,77,100,128,129,200,256,300} x message: "
                "exhaustive length sweep 0..=3*block+2 (a rotating third of the 57 instantiations in the quick tier, all in thorough), "
                "generated lengths up to 8 blocks with boundary bias, long messages; oracle: reference Skein 1.3 simple hash; every case "
                "is non-trivial; distinct = FNV-1a of (configuration, hash, message descriptor)",
    },
    "C06": {
        "jobs": lambda tier: jobs_conf(tier, True),
        "rule": "JH-224/256/384/512 x message: exhaustive length sweep 0..=194, generated lengths up to 8 blocks with boundary bias, long "
                "messages; plus Compressor::new/input/finalize on generated arbitrary 1024-bit states and 512-bit blocks (1..3 blocks) "
                "against the nibble-oriented reference F8; every case is non-trivial; distinct = FNV-1a of (configuration, case)",
    },
    "C07": {
        "jobs": lambda tier: jobs_conf(tier, False, ("nostd-sse2", "nostd-ssse3", "nostd-native")),
        "rule": "Groestl-224/256/384/512 x message: exhaustive length sweep 0..=3*block+2, generated lengths up to 8 blocks with boundary "
                "bias, long messages, and block counts 255/256/257 (quick) and 65535/65536/65537 (thorough) with 0, 5, block-9, block-8 "
                "trailing bytes; run on the AES-NI implementation (std, and no-std with target-cpu=native) and on the SSSE3 and SSE2 "
                "implementations (no-std compile-time dispatch); oracle: reference Groestl; every case is non-trivial; distinct = FNV-1a of (configuration, case)",
    },
    "C08": {
        "jobs": jobs_c08,
        "fuzz": [{"target": "hash_history", "runs": 400000, "max_len": 256}],
        "rule": "17 hash types (15 of the property + Skein256<33>, Skein1024<200>) x generated histories (1..20 ops) over a set of up to 6 "
                "live instances: update/chain(piece), clone, reset, finalize_reset (Digest), finalize_fixed_reset (FixedOutput), finalize, "
                "new; piece lengths relative to the instance's buffer fill (block-fill+-2, k*block-fill+-2, 0, 1, <700); oracle: every "
                "finalisation equals the one-shot digest of the bytes that instance absorbed since creation/reset and (<= 2 KiB) the "
                "reference digest; non-trivial = an instance is finalised after >= 2 updates including a boundary-relative piece; "
                "distinct = FNV-1a of (configuration, serialized history)",
    },
    "C17": {
        "jobs": jobs_c17,
        "rule": "hook form: 17 hash types x (real prefix 0..299 bytes in generated chunks, counter placed 0..5 blocks below m*2^e for the "
                "boundaries the format allows - BLAKE-224/256 bits 2^32..2^63, BLAKE-384/512 bits 2^32..2^127 incl. 2^64, Groestl blocks "
                "2^8..2^63, JH bytes 2^29..2^60, Skein bytes 2^32..2^63 - then 0..899 real bytes and finalisation); implementation and "
                "reference model perform the same jump; oracle: counter read-back equals the true amount and digests are equal; real "
                "form: streams of 1-2 MiB (quick) / 512 MiB BLAKE, 4 GiB Skein, 2^16+ blocks Groestl (thorough) without the hook; "
                "non-trivial = the absorbed data crosses the targeted boundary; distinct = FNV-1a of (configuration, case)",
    },
    "C14": {
        "jobs": jobs_c14,
        "fuzz": [{"target": "blockfn", "runs": 3000000, "max_len": 128}],
        "rule": "generated (key, 8/12-byte nonce, 64-bit counter from a mixture with the low word within 8 of 2^32 under any high word, "
                "k*2^32-d, 2^64-1-d, stream id, double rounds 0..=10, 1..3 repetitions); oracle: refill4 bytes == four refills from a clone, "
                "states equal, every block == reference block(key, counter, stream id, 2*drounds), counter advanced by 1/4 with carry into "
                "the high word only, stream id unchanged; run on every emulated host level and the portable back end; every case is "
                "non-trivial; distinct = FNV-1a of (configuration, serialized case)",
    },
    "C15": {
        "jobs": jobs_c14,
        "rule": "generated sequences of set_stream_param(0|1, value) / refill / refill4 / get / compare-with-fresh-state against a "
                "(counter, stream id) model and the reference block function; generated pairs of states that are identical, differ in "
                "exactly one of the 12 key/counter/stream words (each position forced), differ only by refills, or are unrelated, for the "
                "stream32_eq/stream64_eq/== predicates in both argument orders; non-trivial = sequence with >= 1 set, pair differing in "
                "exactly one word or by refills only; distinct = FNV-1a of (configuration, serialized case)",
    },
    "C01": {
        "jobs": jobs_c01,
        "fuzz": [{"target": "blockfn", "runs": 3000000, "max_len": 128}],
        "rule": "generated (variant, key, nonce, preceding partial read, byte position from a mixture of small / uniform / "
                "boundary families around block 2^32, 2^38 and 2^64, length biased to 0,1,63..65,255..257,..., data, buffer offset); "
                "oracle: data_out == data_in XOR reference ChaCha keystream at that position, bytes outside the slice untouched; "
                "non-trivial = request length >= 1; distinct = FNV-1a of (configuration, serialized case)",
    },
    "C02": {
        "jobs": jobs_c02,
        "fuzz": [{"target": "chacha_history", "runs": 3000000, "max_len": 400}],
        "rule": "generated histories (0..24 ops) over seek(7 integer types; relative / block-boundary / absolute / end-relative "
                "targets), negative seek, apply(fixed | to-block-end+-d | to-stream-end+-d), apply-seek-back-apply, current_pos(7 types) "
                "interpreted against an absolute-position model with the reference keystream; non-trivial = history contains a "
                "mid-block seek followed by an apply, an apply after an apply that ended mid-block, a backwards seek, or an operation "
                "after the final IETF block was read; distinct = FNV-1a of (configuration, serialized history)",
    },
    "C11": {
        "jobs": jobs_c02,
        "fuzz": [{"target": "chacha_history", "runs": 3000000, "max_len": 400}],
        "rule": "generated histories (0..16 ops) weighted towards the end of the keystream (2^38 bytes IETF; 2^64 and block 2^32 for "
                "the 64-bit-counter variants): seeks within +-700 bytes of the limit and beyond it in every integer type, requests ending "
                "exactly at / one or two bytes short of / past the limit; oracle: in-range requests succeed with reference bytes, "
                "out-of-range requests return Err with data, position and later output unchanged, no panic; non-trivial = history has a "
                "request or seek rejected at the end of the keystream followed by a successful read, or a request ending exactly at "
                "the limit; distinct = FNV-1a of (configuration, serialized history)",
    },
}
