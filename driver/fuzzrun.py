"""libFuzzer campaigns of the thorough tier (cargo-fuzz, ASan). The targets decode bytes into the
harness's case types and call the same checkers; a violation writes a replay file that
`./check <id> --replay` re-executes without the fuzzer."""
import os
import re
import shutil
import subprocess
import time

ROOT = os.path.dirname(os.path.dirname(os.path.abspath(__file__)))
FUZZ = os.path.join(ROOT, "fuzz")
HARNESS = os.path.join(ROOT, "harness")
BASE_RUSTFLAGS = "--cfg zerocopy_derive_union_into_bytes --cfg cryptocorrosion_verif --check-cfg cfg(cryptocorrosion_verif)"


def _env(extra=None):
    e = dict(os.environ)
    e["CARGO_NET_OFFLINE"] = "true"
    e["RUSTFLAGS"] = BASE_RUSTFLAGS
    e.pop("CARGO_TARGET_DIR", None)
    if extra:
        e.update(extra)
    return e


def build(target):
    t0 = time.time()
    p = subprocess.run(["cargo", "+nightly", "fuzz", "build", "--fuzz-dir", FUZZ, target], cwd=HARNESS, env=_env(),
                       stdout=subprocess.PIPE, stderr=subprocess.STDOUT, text=True)
    errs = [l for l in p.stdout.splitlines() if re.search(r"\berror(\[E\d+\])?:", l)]
    return p.returncode == 0, errs, p.stdout, time.time() - t0


def campaign(prop, spec, seed, known_sigs, replays_dir):
    """spec: {"target", "runs", "max_len", optional "env"}. Returns dict."""
    target = spec["target"]
    spec = dict(spec)
    spec["runs"] = max(1000, int(spec["runs"] * float(os.environ.get("VERIF_FUZZ_SCALE", "1"))))
    res = {"target": target, "runs_requested": spec["runs"], "executions": 0, "violations": [], "inconclusive": [], "wall_s": 0.0}
    ok, errs, log, bwall = build(target)
    res["build_wall_s"] = round(bwall, 1)
    if not ok:
        res["inconclusive"].append("fuzz target %s does not build: %s" % (target, "; ".join(errs[:2]) or log[-300:]))
        return res
    corpus = os.path.join(ROOT, "target", "fuzz-corpus", "%s-%s" % (prop, target))
    shutil.rmtree(corpus, ignore_errors=True)
    os.makedirs(corpus)
    seeds = os.path.join(FUZZ, "seeds", target)
    nseeds = 0
    if os.path.isdir(seeds):
        for f in os.listdir(seeds):
            shutil.copy(os.path.join(seeds, f), os.path.join(corpus, f))
            nseeds += 1
    res["seed_files"] = nseeds
    art = os.path.join(ROOT, "target", "fuzz-artifacts", "%s-%s" % (prop, target)) + "/"
    os.makedirs(art, exist_ok=True)
    env = {"VERIF_KNOWN": ",".join(known_sigs), "VERIF_FUZZ_OUT": replays_dir, "VERIF_FUZZ_PROP": prop}
    env.update(spec.get("env", {}))
    cmd = ["cargo", "+nightly", "fuzz", "run", "--fuzz-dir", FUZZ, target, corpus, "--",
           "-runs=%d" % spec["runs"], "-seed=%d" % ((seed % 0x7fffffff) + 1), "-max_len=%d" % spec.get("max_len", 512), "-len_control=0",
           "-timeout=10", "-rss_limit_mb=4096", "-print_final_stats=1", "-artifact_prefix=" + art]
    t0 = time.time()
    try:
        p = subprocess.run(cmd, cwd=HARNESS, env=_env(env), stdout=subprocess.PIPE, stderr=subprocess.STDOUT, text=True, timeout=spec.get("timeout", 7200))
        out, rc = p.stdout, p.returncode
    except subprocess.TimeoutExpired as e:
        out, rc = (e.stdout or b"").decode(errors="replace") if isinstance(e.stdout, bytes) else (e.stdout or ""), -999
    res["wall_s"] = round(time.time() - t0, 1)
    m = re.search(r"stat::number_of_executed_units:\s+(\d+)", out)
    if m:
        res["executions"] = int(m.group(1))
    m = re.search(r"stat::new_units_added:\s+(\d+)", out)
    if m:
        res["new_units"] = int(m.group(1))
    m = re.search(r"stat::average_exec_per_sec:\s+(\d+)", out)
    if m:
        res["exec_per_sec"] = int(m.group(1))
    cov = re.findall(r"cov: (\d+)", out)
    if cov:
        res["coverage_edges"] = int(cov[-1])
    for m in re.finditer(r"FUZZ-VIOLATION property=(\S+) sig=(\S+) replay=(\S+)\n\s*(.*)", out):
        res["violations"].append({"sig": m.group(2), "detail": m.group(4)[:500], "replay": m.group(3), "config": "fuzz:" + target, "level": "host"})
    if rc == -999:
        res["inconclusive"].append("fuzz campaign %s hit the watchdog" % target)
    elif rc != 0 and not res["violations"]:
        if "ERROR: AddressSanitizer" in out or "ERROR: LeakSanitizer" in out:
            arts = re.findall(r"Test unit written to (\S+)", out)
            kind = re.search(r"ERROR: AddressSanitizer: (\S+)", out)
            res["violations"].append({"sig": "%s:ASAN:%s:%s" % (prop, target, kind.group(1) if kind else "error"),
                                      "detail": "AddressSanitizer report in target %s" % target, "replay": arts[0] if arts else "-",
                                      "config": "fuzz:" + target, "level": "host"})
        elif "libFuzzer: timeout" in out or "out-of-memory" in out:
            res["inconclusive"].append("fuzz campaign %s: libFuzzer timeout/out-of-memory" % target)
        else:
            res["inconclusive"].append("fuzz campaign %s ended with status %d: %s" % (target, rc, out[-400:].replace("\n", " | ")))
    return res


def replay_artifact(target, path):
    """Re-run a raw libFuzzer artifact (not a JSON replay file) through its target."""
    ok, errs, log, _ = build(target)
    if not ok:
        print("fuzz target %s does not build" % target)
        return 2
    p = subprocess.run(["cargo", "+nightly", "fuzz", "run", "--fuzz-dir", FUZZ, target, path, "--", "-timeout=10"], cwd=HARNESS,
                       env=_env({"VERIF_FUZZ_OUT": "/tmp"}), stdout=subprocess.PIPE, stderr=subprocess.STDOUT, text=True)
    print(p.stdout[-1500:])
    return 0 if p.returncode == 0 else 1
