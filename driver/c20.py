"""C20, first sentence: every declared cargo feature combination of every workspace crate builds.

The lattice is read from the manifests at run time (cargo metadata), every distinct effective feature
set is enumerated (exhaustive), and each point is `cargo check`ed in a scratch target directory.
"""
import concurrent.futures as cf
import itertools
import json
import os
import re
import subprocess
import time

REPO = "/repo"
ROOT = os.path.dirname(os.path.dirname(os.path.abspath(__file__)))
TDIR = os.path.join(ROOT, "target", "c20")
REPLAYS = os.path.join(ROOT, "replays")


def _env():
    e = dict(os.environ)
    e["CARGO_NET_OFFLINE"] = "true"
    # the repository's own .cargo/config.toml supplies the rustflags it needs
    e.pop("RUSTFLAGS", None)
    e.pop("CARGO_TARGET_DIR", None)
    return e


def metadata():
    p = subprocess.run(["cargo", "metadata", "--offline", "--no-deps", "--format-version", "1"], cwd=REPO, env=_env(),
                       stdout=subprocess.PIPE, stderr=subprocess.PIPE, text=True)
    if p.returncode != 0:
        raise RuntimeError("cargo metadata failed: " + p.stderr[-500:])
    return json.loads(p.stdout)["packages"]


def closure(feats, table):
    """Effective set of the crate's own features after expanding feature -> feature edges."""
    out = set()
    todo = list(feats)
    while todo:
        f = todo.pop()
        if f in out or f not in table:
            continue
        out.add(f)
        for d in table[f]:
            if d.startswith("dep:") or "/" in d:
                continue
            todo.append(d)
    return out


def lattice(pkg):
    """All distinct effective feature sets: (requested minimal set, effective set)."""
    table = pkg["features"]
    names = sorted(f for f in table if f != "default")
    seen = {}
    for r in range(len(names) + 1):
        for combo in itertools.combinations(names, r):
            eff = frozenset(closure(combo, table))
            if eff not in seen:
                seen[eff] = list(combo)
    return [(req, sorted(eff)) for eff, req in sorted(seen.items(), key=lambda kv: (len(kv[0]), sorted(kv[0])))]


def check_point(crate, req, default=False):
    tdir = os.path.join(TDIR, crate)
    cmd = ["cargo", "check", "--offline", "-p", crate, "--target-dir", tdir, "--message-format", "short"]
    if not default:
        cmd += ["--no-default-features"]
        if req:
            cmd += ["--features", ",".join(req)]
    t0 = time.time()
    try:
        p = subprocess.run(cmd, cwd=REPO, env=_env(), stdout=subprocess.PIPE, stderr=subprocess.STDOUT, text=True, timeout=1200)
        rc, log = p.returncode, p.stdout
    except subprocess.TimeoutExpired:
        rc, log = -999, "timeout"
    errs = [l for l in log.splitlines() if re.search(r"\berror(\[E\d+\])?:", l) or l.startswith("error")]
    return {"crate": crate, "requested": req, "default": default, "ok": rc == 0, "rc": rc, "errors": errs[:12], "wall_s": round(time.time() - t0, 2),
            "cmd": " ".join(cmd)}


def crate_points(pkg):
    pts = [(pkg["name"], req, eff, False) for req, eff in lattice(pkg)]
    pts.append((pkg["name"], None, ["<defaults>"], True))
    return pts


def sig_for(crate, eff, default):
    return "C20:build-fail:%s:%s" % (crate, "defaults" if default else ("+".join(eff) if eff else "none"))


def run_crate(pkg):
    out = []
    for crate, req, eff, default in crate_points(pkg):
        r = check_point(crate, req or [], default)
        r["effective"] = eff
        r["sig"] = sig_for(crate, eff, default)
        out.append(r)
    return out


def driver_part(tier, seed, known_sigs):
    t0 = time.time()
    os.makedirs(TDIR, exist_ok=True)
    res = {"evaluations": 0, "distinct_nontrivial": 0, "samples": [], "classes": {}, "violations": [], "inconclusive": [], "known_hits": [],
           "exhaustive_dimensions": [], "notes": []}
    try:
        pkgs = metadata()
    except Exception as e:
        res["inconclusive"].append(str(e))
        return res
    allr = []
    with cf.ThreadPoolExecutor(max_workers=9) as ex:
        for rs in ex.map(run_crate, pkgs):
            allr += rs
    n_points = 0
    for r in allr:
        n_points += 1
        res["evaluations"] += 1
        key = "built" if r["ok"] else "failed"
        res["classes"]["feature set %s" % key] = res["classes"].get("feature set %s" % key, 0) + 1
        res["classes"]["crate %s: %s" % (r["crate"], key)] = res["classes"].get("crate %s: %s" % (r["crate"], key), 0) + 1
        if not r["default"]:
            res["distinct_nontrivial"] += 1
        if r["rc"] == -999:
            res["inconclusive"].append("cargo check timed out: %s" % r["cmd"])
            continue
        if not r["ok"]:
            if r["sig"] in known_sigs:
                res["known_hits"].append(r["sig"])
                res["classes"]["excluded-known"] = res["classes"].get("excluded-known", 0) + 1
                continue
            os.makedirs(REPLAYS, exist_ok=True)
            fname = os.path.join(REPLAYS, "C20-%s.json" % re.sub(r"[^A-Za-z0-9_+-]", "_", r["sig"][4:]))
            json.dump({"property": "C20", "kind": "c20", "crate": r["crate"], "requested": r["requested"], "default": r["default"],
                       "sig": r["sig"], "errors": r["errors"], "cmd": r["cmd"]}, open(fname, "w"), indent=1)
            res["violations"].append({"sig": r["sig"], "detail": "%s fails: %s" % (r["cmd"], "; ".join(r["errors"][:3])), "replay": fname,
                                      "config": "cargo check", "level": "-"})
    # samples: a few points written out
    for r in allr[:3] + [x for x in allr if not x["ok"]][:3] + allr[-2:]:
        res["samples"].append({"sub": "feature-lattice", "crate": r["crate"], "requested_features": r["requested"], "effective_features": r["effective"],
                               "default_features": r["default"], "built": r["ok"], "wall_s": r["wall_s"]})
    res["exhaustive_dimensions"].append("C20: all %d distinct effective feature sets of the %d workspace crates (+ defaults), read from cargo metadata" % (
        n_points - len(pkgs), len(pkgs)))
    res["notes"].append("feature lattice checked with `cargo check --offline -p <crate> --no-default-features --features <set>` in /repo (guard off, "
                        "the repository's own .cargo/config.toml), %.0fs" % (time.time() - t0))
    return res


def warm():
    try:
        driver_part("quick", 0, [])
    except Exception:
        pass


def replay(rj):
    r = check_point(rj["crate"], rj.get("requested") or [], rj.get("default", False))
    print("replay C20: %s -> %s" % (r["cmd"], "builds" if r["ok"] else "FAILS"))
    for e in r["errors"]:
        print("  " + e)
    if not r["ok"]:
        print("VIOLATION property=C20 replay=%s" % "-")
        return 1
    return 0
