def warm():
    pass
def replay(rj):
    return 2
