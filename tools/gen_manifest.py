#!/usr/bin/env python3
"""Regenerate /verif/MANIFEST.json from the per-property table below."""
import json
import subprocess

HOOK_COMMITS = subprocess.run(["git", "-C", "/repo", "log", "--format=%h %s"], stdout=subprocess.PIPE, text=True).stdout.splitlines()
HOOK_COMMITS = [l.split()[0] for l in HOOK_COMMITS if " verif hook:" in l][::-1]

PBT = "property-based testing (proptest TestRunner, integrated shrinking)"
P = {
    "C01": ("differential PBT against an independent ChaCha/HChaCha reference model",
            "Generated keys/nonces/positions/lengths (boundary-biased: block 2^32, 2^38, 2^64, buffer fill levels) for all 7 cipher types are compared byte for byte with a reference keystream written from the specification, with canaries around the data; run optimised, overflow-checked and on every emulated back end. Exploration is the right level: the input space is astronomically large and the oracle is exact.",
            "5.C01"),
    "C02": ("model-based stateful PBT (operation histories vs absolute-position model + reference keystream)",
            "Generated seek/apply/failed-apply/current_pos histories (7 seek integer types, relative, block-boundary and end-relative targets, buffer-relative lengths) are interpreted against an absolute-position model after every step; histories shrink as one value. Decides history independence on the explored histories; classes (mid-block seek then apply, backwards seek, after final block...) are counted and required.",
            "5.C02"),
    "C03": ("differential PBT across back ends and build configurations (dispatch-override hook, per-Machine instantiation, no_simd and no-std builds)",
            "The same generated cases run under run-time dispatch forced to each of SSE2..AVX2, the portable build and the five compile-time no-std arms, and the public generic bodies are instantiated per Machine; every configuration must equal the reference model (stronger than comparing configurations with each other).",
            "5.C03"),
    "C04": ("differential PBT + exhaustive length sweep against a BLAKE reference model written from the specification", "Every message length 0..=3*block+2 and generated longer messages with adversarial content patterns for the four variants against an independent BLAKE model validated on the submission vectors and KAT files.", "5.C04"),
    "C05": ("differential PBT + exhaustive length sweep against a Skein 1.3 / Threefish reference model", "57 instantiations (3 state sizes x 19 output sizes incl. N<8, N not multiple of 8, N > state) x swept and generated message lengths against an independent Skein model validated on the Skein 1.3 vectors and KAT files.", "5.C05"),
    "C06": ("differential PBT + exhaustive length sweep against a nibble-oriented JH42 reference model; direct F8 on arbitrary states", "The bit-sliced implementation is compared with the specification's nibble-oriented definition on swept/generated messages and on generated arbitrary 1024-bit states and 512-bit blocks through the public Compressor.", "5.C06"),
    "C07": ("differential PBT + exhaustive length sweep against a Groestl reference model (generated S-box, matrix MixBytes)", "Swept and generated messages incl. the <=8-bytes-left padding boundary and block counts that need a second and third counter byte, against an independent Groestl model validated on the KAT files.", "5.C07"),
    "C08": ("model-based stateful PBT over sets of hasher instances (update/chain/clone/reset/finalize_reset/finalize histories)", "Histories over up to 6 live instances with boundary-relative piece lengths; every finalisation must equal the one-shot digest of that instance's own byte string and the reference digest.", "5.C08"),
    "C09": ("differential PBT against a Threefish reference model, default and no_unroll builds", "Generated keys (incl. parity-word carries), tweaks and blocks for the three sizes against the reference cipher, identically in the unrolled and no_unroll builds, optimised and overflow-checked.", "5.C09"),
    "C10": ("round-trip PBT (both composition orders) + differential check of decryption against the reference inverse", "dec(enc(x)) == x, enc(dec(x)) == x and decrypt == reference inverse, so compensating errors are visible.", "5.C09"),
    "C11": ("model-based stateful PBT focused on the end of the keystream and counter word carries", "Histories whose seeks and requests land within a few hundred bytes of 2^38 (IETF), block 2^32 and 2^64: exactly-at-limit requests succeed, requests past the limit fail atomically (data, position, later output unchanged), seeks past the end return Err, no counter wrap.", "5.C11"),
    "C12": ("differential PBT of every (back end, vector type, operation) cell against a byte-level scalar model", "One generated operand set evaluates all 202 cells required by the Machine trait bounds on each of six back ends; the failing cell is the signature; structured operands (single bits, all-ones words, 0x80/0x7f) target carries, sign tricks and lane crossings.", "5.C12"),
    "C13": ("round-trip / packing-relation PBT of data movement on every back end, element indices enumerated", "152 relations per back end (lanes, storage views, insert/extract at every index, transpose4, to_scalars, LE/BE byte I/O and round trips) against little-endian packing of one canonical byte string.", "5.C13"),
    "C14": ("differential + metamorphic PBT of the block API (refill4 == 4 x refill == reference block) on every back end", "Generated counters concentrated at the low-word carry in each of the four lanes and at 2^64, all double-round counts 0..=10, on every emulated level and the portable build.", "5.C14"),
    "C15": ("model-based PBT of set/get/refill sequences and pairwise predicate checks with forced single-word differences", "Sequences against a (counter, stream id) model and the reference block; state pairs differing in exactly one of the 12 words (each position forced) decide the stream-equality predicates in both directions.", "5.C15"),
    "C16": ("placement sweep + PBT with guard pages (mmap/mprotect arena) and canaries; crash attribution through a progress file", "Every byte-slice API x every start alignment 0..63 x slices abutting an unmapped page before/after; results must equal the ordinary-buffer result, canaries stay intact, the process survives; a fault is replayed in a fresh process before it is reported.", "5.C16"),
    "C17": ("differential PBT with fast-forwarded counters (cfg-guarded hook) on implementation and reference alike + real long streams", "Counters are placed a few blocks below each word boundary the formats allow and real data carries them across; implementation and reference perform the same jump, digests and counter read-back must agree; real multi-hundred-MiB streams in the thorough tier.", "5.C17"),
    "C18": ("randomised multi-thread stress from cold child processes (schedule not controlled) + deterministic model-based interleaving of instances", "Part (a) is a stress test: generated thread counts, call mixes and arrival jitter in a fresh process per case; part (b) decides instance isolation deterministically. The evidence says which is which.", "5.C18 and 8"),
    "C19": ("differential PBT of every public method cell of the five ppv-null types against the scalar lane model, optimised and overflow-checked", "78 cells per generated operand set incl. values that overflow additions and every rotate amount class; 'no panic in any build profile' is decided by running the checked profile.", "5.C19"),
    "C20": ("exhaustive enumeration of the cargo feature lattice (build oracle) + differential PBT per build configuration", "All distinct effective feature sets of the 9 crates are cargo-checked (exhaustive for that dimension; not a search over inputs); that a feature never changes results is decided by running the generators against the reference models in each configuration.", "5.C20 and 8"),
}

props = [json.loads(l) for l in open("/verif/properties.jsonl")]
m = {
    "version": 1,
    "setup_cmd": "./check --setup",
    "hooks": {
        "guard": "cryptocorrosion_verif",
        "enable": "RUSTFLAGS=\"--cfg zerocopy_derive_union_into_bytes --cfg cryptocorrosion_verif\" (set by ./check for every harness build; the harness depends on /repo's crates by path)",
        "baseline_off_cmd": "cd /repo && cargo test --workspace --no-fail-fast --offline",
        "source_commits": HOOK_COMMITS,
        "add_only": True,
    },
    "engines": [
        {"name": "vh", "path": "harness", "serves_properties": sorted(P),
         "kind_free_text": "Rust worker binary: proptest TestRunner with a fixed XorShift seed (generation + integrated shrinking), reference models written from the specifications, case classification/counting, replay files; built per (configuration, profile) by ./check"},
        {"name": "check", "path": "check", "serves_properties": sorted(P),
         "kind_free_text": "python3 driver: rebuilds the configurations from /repo's working tree, fans workers out over configurations / emulated host levels, merges evidence, applies KNOWN_FINDINGS.txt, crash attribution, C20 feature lattice"},
        {"name": "fuzz", "path": "fuzz", "serves_properties": ["C02", "C11", "C08", "C12", "C13", "C16", "C01", "C14"],
         "kind_free_text": "cargo-fuzz / libFuzzer targets (ASan) that decode bytes into the same case types and call the same checkers; run by the thorough tier"},
    ],
    "checks": [],
    "notes": "All 20 properties are claimed at level 'exploration'. Known findings: KNOWN_FINDINGS.txt. Design, oracles, defects found and repaired, sensitivity results: DESIGN.md.",
    "not_applicable": [],
}
for p in props:
    pid = p["id"]
    tech, text, ref = P[pid]
    m["checks"].append({
        "property_id": pid,
        "quick_cmd": "./check %s --tier quick" % pid,
        "thorough_cmd": "./check %s --tier thorough" % pid,
        "evidence_file": "/verif/evidence/%s.json" % pid,
        "replay_cmd_template": "./check %s --replay {path}" % pid,
        "engine": "vh",
        "level_claimed": {"category": "exploration", "text": text, "design_ref": "DESIGN.md section " + ref},
        "level_note": "Trusted: the reference models (validated against published vectors and the committed KAT files at every worker start), proptest, rustc/cargo. Holds for the explored cases only; counts, class distribution and samples are in the evidence file.",
        "technique": tech,
    })
json.dump(m, open("/verif/MANIFEST.json", "w"), indent=1)
print("wrote MANIFEST.json with %d checks" % len(m["checks"]))
