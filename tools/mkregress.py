#!/usr/bin/env python3
"""For each repaired defect: revert its fix commit in /repo, run the quick check of the properties it
belongs to, keep the smallest shrunk replay per (property, signature class) as replays/regress-*.json,
restore /repo. Run only when nothing else is building from /repo."""
import glob, json, os, subprocess, sys, time

FIXES = [
    ("F1", "423e15f", ["C02"]), ("F2", "c9cee9e", ["C02", "C01"]), ("F3", "ba165ab", ["C11", "C02"]), ("F4", "63ba795", ["C02", "C11"]),
    ("F5", "22f61e2", ["C14", "C11"]), ("F6", "e4bc2f6", ["C12"]), ("F7", "1ebda8d", ["C12"]), ("F8", "c31f3e4", ["C12", "C03"]),
    ("F9", "9f1a360", ["C13"]), ("F10", "959baa9", ["C12"]), ("F11", "1c1be05", ["C13"]), ("F12", "e4a7cd5", ["C12", "C03"]),
    ("F13", "68b3b2e", ["C19"]),
]
only = sys.argv[1:]
os.chdir("/verif")
for name, commit, props in FIXES:
    if only and name not in only:
        continue
    diff = subprocess.run(["git", "-C", "/repo", "show", commit], stdout=subprocess.PIPE, text=True).stdout
    open("/tmp/mkregress.diff", "w").write(diff)
    if subprocess.run(["git", "-C", "/repo", "apply", "-R", "/tmp/mkregress.diff"]).returncode != 0:
        print(name, "cannot revert"); continue
    try:
        for prop in props:
            t0 = time.time()
            before = set(glob.glob("replays/%s-*.json" % prop))
            for f in before:
                os.remove(f)
            p = subprocess.run(["./check", prop], stdout=subprocess.PIPE, stderr=subprocess.STDOUT, text=True)
            new = glob.glob("replays/%s-*.json" % prop)
            best = {}
            for f in new:
                try:
                    r = json.load(open(f))
                except Exception:
                    continue
                if "case" not in r:
                    continue
                # class = signature without the per-type part
                key = r["sig"].split(":")[-1] + ":" + r["sig"].split(":")[-2]
                size = len(json.dumps(r["case"]))
                if key not in best or size < best[key][0]:
                    best[key] = (size, f, r)
            kept = 0
            for key, (size, f, r) in sorted(best.items(), key=lambda kv: kv[1][0])[:2]:
                r["regression_for"] = "%s (fix %s)" % (name, commit)
                out = "replays/regress-%s-%s-%d.json" % (prop, name, kept)
                json.dump(r, open(out, "w"), indent=1)
                kept += 1
            print("%s %s: rc=%d, %d replay files, kept %d (%.0fs)" % (name, prop, p.returncode, len(new), kept, time.time() - t0), flush=True)
    finally:
        subprocess.run(["git", "-C", "/repo", "checkout", "--", "."])
print(subprocess.run(["git", "-C", "/repo", "status", "--short"], stdout=subprocess.PIPE, text=True).stdout)
