#!/bin/bash
# usage: tools/mutest.sh <patch-file | -R <commit>> <property>...
# Applies a patch (or the reverse of a commit) to /repo, runs the quick checks, restores /repo.
set -u
cd /verif
if [ "$1" = "-R" ]; then
  git -C /repo show "$2" > /tmp/mutest.$$.diff; shift 2
  git -C /repo apply -R /tmp/mutest.$$.diff || { echo "cannot apply reverse"; exit 3; }
  rm -f /tmp/mutest.$$.diff
else
  git -C /repo apply "$(realpath "$1")" || { echo "cannot apply $1"; exit 3; }; shift
fi
trap 'git -C /repo checkout -- . ; git -C /repo status --short | head -3' EXIT
for p in "$@"; do
  start=$(date +%s)
  ./check "$p" > /tmp/mutest.out 2>&1; rc=$?
  echo "== $p rc=$rc ($(( $(date +%s) - start ))s)"; grep -E "VIOLATION|sig=|INCONCLUSIVE|KNOWN" /tmp/mutest.out | head -8
done
