#!/bin/bash
# usage: tools/mutest.sh <patch-file | -R <commit>> <property>...
# Applies a patch (or the reverse of a commit) to /repo, runs the quick checks, restores /repo.
set -u
cd /verif
if [ "$1" = "-R" ]; then
  git -C /repo show "$2" > /tmp/mutest.$$.diff; shift 2
  git -C /repo apply -R /tmp/mutest.$$.diff || { echo "cannot apply reverse"; exit 3; }
  rm -f /tmp/mutest.$$.diff
else
  PATCH="$(realpath "$1")"
  git -C /repo apply "$PATCH" || { echo "cannot apply $1"; exit 3; }; shift
fi
# reverse application also removes files the patch added; checkout restores the rest
trap '[ -n "${PATCH:-}" ] && git -C /repo apply -R "$PATCH" 2>/dev/null; git -C /repo checkout -- . ; git -C /repo status --short | head -3' EXIT
for p in "$@"; do
  start=$(date +%s)
  ./check "$p" > /tmp/mutest.out 2>&1; rc=$?
  echo "== $p rc=$rc ($(( $(date +%s) - start ))s)"; grep -E "VIOLATION|sig=|INCONCLUSIVE|KNOWN" /tmp/mutest.out | head -8
done
