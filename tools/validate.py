#!/opt/veriftools/pyvenv/bin/python
import json, jsonschema, sys, os
m = json.load(open('/verif/MANIFEST.json'))
jsonschema.validate(m, json.load(open('/root/.vp/MANIFEST.schema.json')))
es = json.load(open('/root/.vp/EVIDENCE.schema.json'))
bad = 0
for c in m['checks']:
    f = c['evidence_file']
    if not os.path.exists(f):
        print('missing evidence', f); bad += 1; continue
    try:
        jsonschema.validate(json.load(open(f)), es)
    except Exception as e:
        print('invalid', f, str(e)[:300]); bad += 1
ids = {json.loads(l)['id'] for l in open('/verif/properties.jsonl')}
claimed = {c['property_id'] for c in m['checks']}
na = {c['property_id'] for c in m.get('not_applicable', [])}
if claimed | na != ids or claimed & na:
    print('coverage mismatch', sorted(ids - claimed - na), sorted(claimed & na)); bad += 1
print('manifest ok, %d checks, %d n/a, %d problems' % (len(claimed), len(na), bad))
sys.exit(1 if bad else 0)
