#!/usr/bin/env python3
"""Evaluate one seeded change written by a sub-agent:  evalmut.py C05 A [extra properties...]
 1. demonstration passes on the clean scratch worktree
 2. with the patch: workspace builds, unedited test suite passes, demonstration fails
 3. patch applied to /repo: quick check(s) of the property -> must report a violation; /repo restored
 4. the change is kept as /verif/seeded/<id><X>/ with meta.json recording all of the above
"""
import json, os, re, shutil, subprocess, sys, time

pid, x = sys.argv[1], sys.argv[2]
props = sys.argv[3:] or [pid]
WT = "/tmp/wt/%s" % pid
M = "%s/MUTANTS/%s" % (WT, x)
env = dict(os.environ, CARGO_NET_OFFLINE="true")


def sh(cmd, cwd, timeout=3600):
    p = subprocess.run(cmd, cwd=cwd, shell=True, stdout=subprocess.PIPE, stderr=subprocess.STDOUT, text=True, env=env, timeout=timeout)
    return p.returncode, p.stdout


res = {"property": pid, "mutant": x}
sh("git checkout -- .", WT)
rc, out = sh("bash MUTANTS/%s/demo/run_demo.sh" % x, WT)
res["demo_clean_rc"] = rc
rc, out = sh("git apply MUTANTS/%s/patch.diff" % x, WT)
if rc != 0:
    print("patch does not apply:", out); sys.exit(3)
rc, out = sh("cargo build --workspace --offline 2>&1 | tail -3", WT)
res["build_ok"] = "Finished" in out
rc, out = sh("cargo test --workspace --no-fail-fast --offline 2>&1 | grep -E '^test result|FAILED|panicked' ", WT)
passed = sum(int(m) for m in re.findall(r"(\d+) passed", out))
failed = sum(int(m) for m in re.findall(r"(\d+) failed", out))
res["suite_passed"], res["suite_failed"] = passed, failed
rc, out = sh("bash MUTANTS/%s/demo/run_demo.sh" % x, WT)
res["demo_patched_rc"] = rc
res["demo_patched_tail"] = out[-600:]
sh("git apply -R MUTANTS/%s/patch.diff" % x, WT)  # also removes files the patch added
sh("git checkout -- .", WT)
st = sh("git status --short", WT)[1]
res["worktree_after"] = st.strip().splitlines()

# ---- detection by the checks
rc, out = sh("git -C /repo status --short", "/verif")
assert out.strip() == "", "/repo is not clean: " + out
rc, out = sh("git -C /repo apply %s/patch.diff" % M, "/verif")
assert rc == 0, out
det = {}
try:
    for p in props:
        t0 = time.time()
        rc, out = sh("./check %s" % p, "/verif", timeout=7200)
        sigs = sorted(set(re.findall(r"sig=(\S+)", out)))
        inc = [l for l in out.splitlines() if l.startswith("INCONCLUSIVE")][:3]
        det[p] = {"rc": rc, "sigs": sigs[:8], "inconclusive": inc, "wall_s": round(time.time() - t0)}
finally:
    sh("git -C /repo apply -R %s/patch.diff" % M, "/verif")  # also removes files the patch added
    sh("git -C /repo checkout -- .", "/verif")
res["checks"] = det
res["detected"] = any(v["rc"] == 1 for v in det.values())
meta = json.load(open(M + "/meta.json"))
meta["verification"] = res
dst = "/verif/seeded/%s%s" % (pid, x)
ok = res["demo_clean_rc"] == 0 and res["build_ok"] and res["suite_failed"] == 0 and res["suite_passed"] >= 39 and res["demo_patched_rc"] != 0
meta["valid"] = ok
if ok:
    shutil.rmtree(dst, ignore_errors=True)
    os.makedirs(dst)
    shutil.copy(M + "/patch.diff", dst)
    shutil.copytree(M + "/demo", dst + "/demo", ignore=shutil.ignore_patterns("target", "Cargo.lock"))
    json.dump(meta, open(dst + "/meta.json", "w"), indent=1)
print(json.dumps({k: res[k] for k in ("demo_clean_rc", "build_ok", "suite_passed", "suite_failed", "demo_patched_rc", "detected")}), "valid=%s" % ok)
for p, v in det.items():
    print("  check %s: rc=%d %ds %s %s" % (p, v["rc"], v["wall_s"], v["sigs"][:4], v["inconclusive"][:1]))
